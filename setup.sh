#!/bin/sh
# Build the verification harness offline from files on disk (DESIGN §6).
set -e
cd "$(dirname "$0")"
export CARGO_NET_OFFLINE=true
./harness/shims/check_dashmap_vendor.sh
cd harness
cargo build --release --offline 2>&1 | tail -3
