#!/bin/sh
# Build the verification harness offline from files on disk (DESIGN §6).
set -e
cd "$(dirname "$0")"
export CARGO_NET_OFFLINE=true
./harness/shims/check_dashmap_vendor.sh
# the corpora are generated deterministically (and committed); regenerate so that they cannot drift from their generators
python3 gen/gen_corpus.py
python3 gen/gen_shapes.py
python3 gen/gen_attrs.py
python3 gen/gen_invalid.py
cd harness
cargo build --release --offline 2>&1 | tail -3
# dependencies of the compile-fail corpus in check mode (its own errors are expected)
cargo check --offline -p invalid >/dev/null 2>&1 || true
test -x target/release/engine
