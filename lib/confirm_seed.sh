#!/bin/bash
# Confirms a sub-agent's seeded change in its scratch worktree:
#   with the change: the workspace builds and every pre-existing test passes (only the demonstration fails);
#   without the change: the demonstration passes.
# usage: confirm_seed.sh <worktree> ; prints a JSON summary on the last line
wt=$1
cd "$wt" || exit 2
demo=$(git status --porcelain | grep '^??' | awk '{print $2}' | grep -E '\.rs$' | head -5 | tr '\n' ' ')
git apply --check -R SEEDED.diff 2>/dev/null || { echo '{"ok":false,"why":"SEEDED.diff is not applied in the worktree"}'; exit 1; }
export CARGO_NET_OFFLINE=true
log=$(mktemp)
cargo test --workspace --offline --no-fail-fast >"$log" 2>&1
with_failed=$(grep -E "^test .* \.\.\. FAILED" "$log" | awk '{print $2}' | sort -u | tr '\n' ' ')
with_passed=$(grep -E "^test result" "$log" | awk '{p+=$4} END {print p+0}')
build_err=$(grep -c "^error" "$log")
git apply -R SEEDED.diff
log2=$(mktemp)
cargo test --workspace --offline --no-fail-fast >"$log2" 2>&1
without_failed=$(grep -E "^test .* \.\.\. FAILED" "$log2" | awk '{print $2}' | sort -u | tr '\n' ' ')
without_passed=$(grep -E "^test result" "$log2" | awk '{p+=$4} END {print p+0}')
git apply SEEDED.diff
echo "{\"demo_files\":\"$demo\",\"build_errors_with\":$build_err,\"with_change_failed\":\"$with_failed\",\"with_change_passed\":$with_passed,\"without_change_failed\":\"$without_failed\",\"without_change_passed\":$without_passed}"
rm -f "$log" "$log2"
