#!/bin/bash
# Shim conformance (DESIGN §3.5): the sequential engines built against the shims and against the
# REAL parking_lot + DashMap must see exactly the same thing. Compares per-configuration digests
# (states, transitions, transition kinds, observation counts) of both builds; exit 3 on any difference.
set -e
cd "$(dirname "$0")/.."
export CARGO_NET_OFFLINE=true
(cd harness && cargo build --release --offline 2>&1 | tail -1)
(cd harness-real && cargo build --release --offline 2>&1 | tail -1)
A=harness/target/release/engine
B=harness-real/target/release/engine-real
strip_wall() { grep '^@@' | sed -E 's/"wall_s":[0-9.e+-]+,?//g' | sort; }
rc=0
total=0
tmp=$(mktemp -d)
specs=("seqx C04" "seqx C08" "seqx C05" "seqx C06" "seqx C07" "seqx C15" "macx C03" "macx C09" "macx C10" "macx C11" "macx C12" "macx C13" "macx C15" "macx C20" "shapex C02" "cfgx C19")
for spec in "${specs[@]}"; do
  set -- $spec
  ($A $1 --property $2 --tier quick | strip_wall > $tmp/a-$1-$2) &
  ($B $1 --property $2 --tier quick | strip_wall > $tmp/b-$1-$2) &
done
wait
for spec in "${specs[@]}"; do
  set -- $spec
  da=$(sha256sum < $tmp/a-$1-$2 | cut -c1-16); db=$(sha256sum < $tmp/b-$1-$2 | cut -c1-16); n=$(wc -l < $tmp/a-$1-$2)
  total=$((total + n))
  if [ "$da" != "$db" ] || [ "$n" -lt 2 ]; then
    echo "MACHINERY-FAILURE: shim build and real-crate build disagree for $1 $2 ($da vs $db, $n records)"
    rc=3
  else
    echo "conformance $1 $2: identical digests over $n records ($da)"
  fi
done
rm -rf $tmp
echo "conformance: $total records compared"
exit $rc
for spec in "seqx C16" "seqx C08" "seqx C05" "seqx C06" "macx C01" "macx C09" "macx C11" "macx C12" "macx C13" "macx C20" "shapex C02" "cfgx C19"; do
  set -- $spec
  da=$($A $1 --property $2 --tier quick | strip_wall | sha256sum | cut -c1-16)
  db=$($B $1 --property $2 --tier quick | strip_wall | sha256sum | cut -c1-16)
  n=$($A $1 --property $2 --tier quick | grep -c '^@@' || true)
  total=$((total + n))
  if [ "$da" != "$db" ]; then
    echo "MACHINERY-FAILURE: shim build and real-crate build disagree for $1 $2 ($da vs $db)"
    rc=3
  else
    echo "conformance $1 $2: identical digests over $n records ($da)"
  fi
done
echo "conformance: $total records compared"
exit $rc
