"""Which engines decide which property, and how their records become evidence."""
import os
import subprocess

TIMEOUTS = {"quick": 900, "thorough": 6 * 3600}

SEQX = {"C04", "C05", "C06", "C07", "C08", "C16"}

ASSUMPTIONS = [
    "bounds: key alphabets of 2-5 keys, limits <= 4, ttl <= 3 s, bounded history depth / preemptions as reported under coverage",
    "trusted base: rustc, std, lock_api, once_cell, hashbrown, vendored DashMap 6.1.0 minus its lock, the parking_lot/dashmap/fastrand shims, the vsched scheduler, the monitors",
    "the explored object is the implementation itself (path dependency on /repo's working tree), so every explored trace is a trace of the implementation",
    "scheduling is sequentially consistent; first-call registration (Once/OnceCell) is done in warm-up and its interleavings are not explored",
    "HashMap RandomState iteration order is assumed irrelevant to outcomes (checked by the determinism self-test, not enumerated)",
]


THRX = {"C14", "C17", "C18"}
SEQX_ALSO = {"C01", "C15"}
THRX_ALSO = {"C01", "C03", "C04", "C05", "C07", "C08", "C09", "C10", "C11", "C12", "C13", "C15", "C16"}
MACX = {"C01", "C03", "C04", "C05", "C06", "C07", "C09", "C10", "C11", "C12", "C13", "C14", "C15", "C16", "C20"}


def jobs(pid, tier, engine):
    """-> list of (engine name, argv)"""
    ncpu = os.cpu_count() or 4
    out = []
    if pid in SEQX or pid in SEQX_ALSO:
        for i in range(ncpu):
            out.append(("seqx", ["seqx", "--property", pid, "--tier", tier, "--shard", f"{i}/{ncpu}"]))
    if pid == "C19":
        for i in range(ncpu):
            out.append(("cfgx", ["cfgx", "--property", pid, "--tier", tier, "--shard", f"{i}/{ncpu}"]))
    if pid in ("C01", "C02", "C03", "C14"):
        for i in range(ncpu):
            out.append(("shapex", ["shapex", "--property", pid, "--tier", tier, "--shard", f"{i}/{ncpu}"]))
    if pid in MACX:
        for i in range(ncpu):
            out.append(("macx", ["macx", "--property", pid, "--tier", tier, "--shard", f"{i}/{ncpu}"]))
    if pid in THRX or pid in THRX_ALSO:
        labels = [l.split(" ", 1) for l in subprocess.check_output([engine, "thrx", "--property", pid, "--tier", tier, "--list"], text=True).splitlines() if l.strip()]
        # one process per driver: the set of registered caches is then exactly the driver's own;
        # thread-scope-only drivers ("T:...") register nothing and are batched
        batch = []
        for idx, label in labels:
            if label.startswith("T:"):
                batch.append(int(idx))
                if len(batch) == 12:
                    out.append(("thrx", ["thrx", "--property", pid, "--tier", tier, "--drivers", f"{batch[0]}:{batch[-1] + 1}"]))
                    batch = []
            else:
                if batch:
                    out.append(("thrx", ["thrx", "--property", pid, "--tier", tier, "--drivers", f"{batch[0]}:{batch[-1] + 1}"]))
                    batch = []
                out.append(("thrx", ["thrx", "--property", pid, "--tier", tier, "--driver", idx]))
        if batch:
            out.append(("thrx", ["thrx", "--property", pid, "--tier", tier, "--drivers", f"{batch[0]}:{batch[-1] + 1}"]))
    # the scheduler jobs are the long ones: start them first
    out.sort(key=lambda j: 0 if j[0] == "thrx" else 1)
    return out


def shard_note():
    try:
        eng = os.path.join(os.path.dirname(os.path.dirname(os.path.abspath(__file__))), "harness", "target", "release", "engine")
        return subprocess.check_output([eng, "shards"], text=True).strip()
    except Exception as e:  # informational only
        return f"unavailable: {e}"


def evidence(pid, tier, records):
    cov = {}
    configs = [v for (e, k, v) in records if k == "CONFIG"]
    seq = [v for (e, k, v) in records if k == "CONFIG" and e == "seqx"]
    states = sum(c.get("states", 0) for c in configs)
    transitions = sum(c.get("transitions", 0) for c in configs)
    cov["states"] = states
    cov["transitions"] = transitions
    cov["traces_validated_against_impl"] = transitions
    cov["configs"] = len(configs)
    if seq:
        kinds = {}
        for c in seq:
            for k, n in c.get("kinds", {}).items():
                kinds[k] = kinds.get(k, 0) + n
        cov["seqx"] = {
            "configs": len(seq),
            "states": sum(c["states"] for c in seq),
            "transitions": sum(c["transitions"] for c in seq),
            "configs_closed": sum(1 for c in seq if c.get("closure")),
            "depth_completed_min": min(c["depth_completed"] for c in seq),
            "depth_completed_max": max(c["depth_completed"] for c in seq),
            "random_branches": sum(c.get("random_branches", 0) for c in seq),
            "state_caps_hit": [c["label"] for c in seq if c.get("state_cap_hit")],
            "transition_kinds": kinds,
        }
        cov["distinct_outcomes"] = len(kinds)
        big = sorted(seq, key=lambda c: -c["states"])[:2]
        cov["samples"] = [{"config": c["label"], "states": c["states"], "cases": c.get("samples", [])} for c in big]
        caps = cov["seqx"]["state_caps_hit"]
        cov["caps_hit"] = caps
        cov["exhaustive"] = bool(seq) and all(c.get("closure") for c in seq) and not caps
        cov["rule"] = ("breadth-first search over the real cache contents; a state is (store with values/hit counters/ages, queue, ghost ranks, clock phase); "
                       "a transition calls the real get/insert/insert_with_memory or advances the virtual clock; every fastrand draw is a branch; "
                       "exhaustive up to depth_completed per configuration (to closure where configs_closed counts it)")
    attrs = [v for (e, k, v) in records if k == "ATTR"]
    inval = [v for (e, k, v) in records if k == "INVALID"]
    if attrs:
        cov["cfgx"] = {
            "decorated_functions_compiled_and_compared": len(attrs),
            "by_flavour": {fl: sum(1 for a in attrs if a["flavour"] == fl) for fl in ("global", "thread", "async")},
            "operation_sequences": sum(a["histories"] for a in attrs),
            "histories_incl_random_answers": sum(a["runs"] for a in attrs),
            "operations_compared_with_the_twin": sum(a["steps"] for a in attrs),
            "distinct_observation_prefixes": sum(a["distinct_observations"] for a in attrs),
            "invalid_corpus": inval[0] if inval else None,
        }
        nprog = len(attrs) + (inval[0]["sites"] if inval else 0)
        cov["programs"] = nprog
        cov["evaluations"] = cov.get("evaluations", 0) + nprog
        cov["distinct_nontrivial"] = cov.get("distinct_nontrivial", 0) + len(set(a["attributes"] for a in attrs)) + (inval[0]["invalid_sites"] if inval else 0)
        cov["states"] = cov.get("states", 0) + cov["cfgx"]["distinct_observation_prefixes"]
        cov["transitions"] = cov.get("transitions", 0) + cov["cfgx"]["operations_compared_with_the_twin"]
        cov["traces_validated_against_impl"] = cov.get("traces_validated_against_impl", 0) + cov["cfgx"]["histories_incl_random_answers"]
        cov["configs"] = cov.get("configs", 0) + len(attrs)
        cov.setdefault("samples", []).extend([a["sample"] for a in sorted(attrs, key=lambda a: -a["runs"])[:2]] + (inval[0]["samples"][:2] if inval else []))
        cov["exhaustive"] = False
        cov["rule"] = (cov.get("rule", "") + " | cfgx: every attribute value in isolation and in the listed pairs (units KB/MB/GB upper and lower case, integer and string byte counts, policies, limits, ttl, "
                       "frequency_weight float/integer, name, tags/events/dependencies, cache_if, invalidate_on, 0-4 arguments, methods, Result) for sync global, thread and async; each function is driven through every "
                       "operation sequence of depth 4 (6 for frequency_weight) and compared call for call (body ran / keys held) with the core cache constructed directly with the intended numbers; "
                       "non-trivial = distinct attribute lists plus invalid attribute lists, each of which must carry a compile error inside its own span; pairwise, not the full product (the core product is covered by the L1 corpus of C01/C04)").strip(" |")
    shapes = [v for (e, k, v) in records if k == "SHAPE"]
    if shapes:
        tuples = sum(x["tuples"] for x in shapes)
        cov["shapex"] = {
            "signature_shapes": len(shapes),
            "sync_shapes": sum(1 for x in shapes if x["generator"].startswith("sync")),
            "async_shapes": sum(1 for x in shapes if x["generator"].startswith("async")),
            "method_shapes": sum(1 for x in shapes if x["method"]),
            "argument_tuples": tuples,
            "calls": 2 * tuples,
            "largest_shape": max(shapes, key=lambda x: x["tuples"])["signature"],
        }
        cov["evaluations"] = cov.get("evaluations", 0) + tuples
        cov["distinct_nontrivial"] = cov.get("distinct_nontrivial", 0) + sum(x["nontrivial"] for x in shapes)
        cov["states"] = cov.get("states", 0) + tuples
        cov["transitions"] = cov.get("transitions", 0) + 2 * tuples
        cov["traces_validated_against_impl"] = cov.get("traces_validated_against_impl", 0) + 2 * tuples
        cov["configs"] = cov.get("configs", 0) + len(shapes)
        cov.setdefault("samples", []).extend({"shape": x["name"], "signature": x["signature"], "generator": x["generator"], "tuples": x["tuples"], "argument_tuples_as_rendered": x["samples"]} for x in sorted(shapes, key=lambda x: -x["tuples"])[:3])
        cov["exhaustive"] = False
        cov["rule"] = (cov.get("rule", "") + " | shapex: for every signature shape (free functions and methods, sync to_cache_key and async format!) every argument tuple of the cartesian product of small adversarial domains "
                       "(separator, quotes, backslash, digit concatenations, nested containers) is called twice on an unlimited cache; a tuple is non-trivial when another tuple of the same shape has the same rendering once all delimiters are dropped "
                       "(they stay apart only thanks to separators / quoting); oracle: executions = tuples = listed keys and every call returns its own tuple").strip(" |")
    suites = [v for (e, k, v) in records if k == "SUITE"]
    if suites:
        cov["macx"] = {
            "functions": len(suites),
            "operation_sequences": sum(x["histories"] for x in suites),
            "histories_incl_environment_answers": sum(x["runs"] for x in suites),
            "operations_executed": sum(x["steps"] for x in suites),
            "enumerated_choice_points": sum(x["choice_points"] for x in suites),
            "distinct_observation_prefixes": sum(x["distinct_observations"] for x in suites),
            "depth_min": min(x["depth"] for x in suites),
            "depth_max": max(x["depth"] for x in suites),
        }
        cov["states"] = cov.get("states", 0) + cov["macx"]["distinct_observation_prefixes"]
        cov["transitions"] = cov.get("transitions", 0) + cov["macx"]["operations_executed"]
        cov["traces_validated_against_impl"] = cov.get("traces_validated_against_impl", 0) + cov["macx"]["histories_incl_environment_answers"]
        cov["configs"] = cov.get("configs", 0) + len(suites)
        big = sorted(suites, key=lambda x: -x["runs"])[:2]
        cov.setdefault("samples", []).extend({"function": x["label"], "alphabet": x["alphabet"], "depth": x["depth"], "histories": x["runs"], "case": x["sample"]} for x in big)
        cov["exhaustive"] = False
        cov["rule"] = (cov.get("rule", "") + " | macx: every operation sequence of the stated depth over the stated alphabet per generated function, every Ok/Err outcome, predicate verdict "
                       "and random victim enumerated as a branch; states = distinct observation prefixes (return values, execution marks, key listings), transitions = operations executed").strip(" |")
    drivers = [v for (e, k, v) in records if k == "DRIVER"]
    if drivers:
        sched = sum(d["schedules"] for d in drivers)
        total_runs = sum(b["schedules"] for d in drivers for b in d["by_bound"])
        points = sum(d["points_total"] for d in drivers)
        bounds = [d["preemption_bound_completed"] for d in drivers]
        by_bound = {}
        for d in drivers:
            for b in d["by_bound"]:
                key = f"bound{b['bound']}/{b['rw_policy']}"
                by_bound[key] = by_bound.get(key, 0) + b["schedules"]
        single = [d["label"] for d in drivers if d["distinct_observations"] <= 1]
        cov["thrx"] = {
            "drivers": len(drivers),
            "schedules_at_max_bound": sched,
            "executions_all_bounds": total_runs,
            "schedules_by_bound_and_rw_policy": by_bound,
            "scheduling_points_total": points,
            "max_points_per_execution": max(d["max_points"] for d in drivers),
            "preemption_bound_completed": None if any(b is None for b in bounds) else min(bounds),
            "executions_ending_in_deadlock": sum(d["deadlocks"] for d in drivers),
            "distinct_observations_total": sum(d["distinct_observations"] for d in drivers),
            "drivers_with_a_single_outcome": len(single),
            "exec_caps_hit": [d["label"] for d in drivers if d.get("exec_cap_hit")],
            "cold_start_drivers": sum(1 for d in drivers if d["label"].startswith("COLD:")),
            "cold_start_child_processes": sum(d["schedules"] for d in drivers if d["label"].startswith("COLD:")),
            "dashmap_shard_of_driver_keys": shard_note(),
            "sequential_equivalence": {
                "final_states_judged": sum(d.get("sequential_equivalence", {}).get("final_states_judged", 0) for d in drivers),
                "continuations_run": sum(d.get("sequential_equivalence", {}).get("continuations_run", 0) for d in drivers),
                "sequential_orders_tried": sum(d.get("sequential_equivalence", {}).get("sequential_orders_tried", 0) for d in drivers),
            },
        }
        cov["schedules"] = sched
        cov["preemption_bound_completed"] = cov["thrx"]["preemption_bound_completed"]
        cov["states"] = cov.get("states", 0) + cov["thrx"]["distinct_observations_total"]
        cov["transitions"] = cov.get("transitions", 0) + points
        cov["traces_validated_against_impl"] = cov.get("traces_validated_against_impl", 0) + total_runs
        cov["configs"] = cov.get("configs", 0) + len(drivers)
        big = sorted(drivers, key=lambda d: -d["schedules"])[:2]
        cov.setdefault("samples", []).extend({"driver": d["label"], "schedules": d["schedules"], "case": d["sample"]} for d in big)
        cov["caps_hit"] = cov.get("caps_hit", []) + cov["thrx"]["exec_caps_hit"]
        cov["exhaustive"] = False
        cov["rule"] = (cov.get("rule", "") + " | thrx: stateless depth-first enumeration of every schedule of the driver's real OS threads with at most "
                       "preemption_bound_completed preemptions (scheduling points: every lock acquisition incl. DashMap shard locks, operation boundaries, "
                       "stats atomics where enabled), under both rwlock fairness policies; states = distinct final observations, transitions = scheduling points executed").strip(" |")
    cov.setdefault("samples", [])
    return {"coverage": cov, "assumptions": ASSUMPTIONS}
