"""Which engines decide which property, and how their records become evidence."""

TIMEOUTS = {"quick": 900, "thorough": 6 * 3600}

SEQX = {"C04", "C05", "C06", "C07", "C08", "C16"}

ASSUMPTIONS = [
    "bounds: key alphabets of 2-5 keys, limits <= 4, ttl <= 3 s, bounded history depth / preemptions as reported under coverage",
    "trusted base: rustc, std, lock_api, once_cell, hashbrown, vendored DashMap 6.1.0 minus its lock, the parking_lot/dashmap/fastrand shims, the vsched scheduler, the monitors",
    "the explored object is the implementation itself (path dependency on /repo's working tree), so every explored trace is a trace of the implementation",
    "scheduling is sequentially consistent; first-call registration (Once/OnceCell) is done in warm-up and its interleavings are not explored",
    "HashMap RandomState iteration order is assumed irrelevant to outcomes (checked by the determinism self-test, not enumerated)",
]


def jobs(pid, tier):
    out = []
    if pid in SEQX or pid in ("C01", "C15"):
        out.append({"engine": "seqx"})
    return out


def evidence(pid, tier, records):
    cov = {}
    configs = [v for (e, k, v) in records if k == "CONFIG"]
    seq = [v for (e, k, v) in records if k == "CONFIG" and e == "seqx"]
    states = sum(c.get("states", 0) for c in configs)
    transitions = sum(c.get("transitions", 0) for c in configs)
    cov["states"] = states
    cov["transitions"] = transitions
    cov["traces_validated_against_impl"] = transitions
    cov["configs"] = len(configs)
    if seq:
        kinds = {}
        for c in seq:
            for k, n in c.get("kinds", {}).items():
                kinds[k] = kinds.get(k, 0) + n
        cov["seqx"] = {
            "configs": len(seq),
            "states": sum(c["states"] for c in seq),
            "transitions": sum(c["transitions"] for c in seq),
            "configs_closed": sum(1 for c in seq if c.get("closure")),
            "depth_completed_min": min(c["depth_completed"] for c in seq),
            "depth_completed_max": max(c["depth_completed"] for c in seq),
            "random_branches": sum(c.get("random_branches", 0) for c in seq),
            "state_caps_hit": [c["label"] for c in seq if c.get("state_cap_hit")],
            "transition_kinds": kinds,
        }
        cov["distinct_outcomes"] = len(kinds)
        big = sorted(seq, key=lambda c: -c["states"])[:2]
        cov["samples"] = [{"config": c["label"], "states": c["states"], "cases": c.get("samples", [])} for c in big]
        caps = cov["seqx"]["state_caps_hit"]
        cov["caps_hit"] = caps
        cov["exhaustive"] = bool(seq) and all(c.get("closure") for c in seq) and not caps
        cov["rule"] = ("breadth-first search over the real cache contents; a state is (store with values/hit counters/ages, queue, ghost ranks, clock phase); "
                       "a transition calls the real get/insert/insert_with_memory or advances the virtual clock; every fastrand draw is a branch; "
                       "exhaustive up to depth_completed per configuration (to closure where configs_closed counts it)")
    cov.setdefault("samples", [])
    return {"coverage": cov, "assumptions": ASSUMPTIONS}
