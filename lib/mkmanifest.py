#!/usr/bin/env python3
"""Regenerates /verif/MANIFEST.json from the table below (run after changing what is claimed)."""
import json, os, subprocess
ROOT = os.path.dirname(os.path.dirname(os.path.abspath(__file__)))
props = [json.loads(l) for l in open(os.path.join(ROOT, "properties.jsonl"))]

TRUST = ("trusted: rustc, std, lock_api, once_cell, hashbrown, the vendored DashMap 6.1.0 minus its lock, the parking_lot/dashmap/fastrand shims, "
         "the vsched scheduler and the monitors; bounded: small key alphabets, limits <= 4, ttl <= 3 s, depth / preemption bounds as reported in the evidence")

CLAIMS = {
    "C01": ("seqx+macx", "explicit-state BFS over the three core engines with two versions per key (last store wins, value encodes key) plus bounded-exhaustive history enumeration over 372 generated #[cache]/#[cache_async] functions (full flavour x policy x limit x ttl x memory product) whose values encode function, key and version; every returned value compared with the undecorated twin", "§7 C01"),
    "C03": ("macx+thrx", "every call sequence (depth 5/6) over 3 keys x 2 functions sharing key strings for all unlimited functions: executions = distinct tuples; plus every schedule (preemption bound 2/3, both rwlock policies) of 2-3 concurrent callers: nothing runs after a storing call returned", "§7 C03"),
    "C04": ("seqx+macx", "explicit-state BFS over the real cache engines (all three flavours x six policies x limits x ttl x memory), every random victim enumerated; "
                    "monitor: size <= limit after every operation and exactly the required number of removals per store; the same monitor on the key listing of generated functions", "§7 C04"),
    "C05": ("seqx+macx", "explicit-state BFS with values of seven owned-heap types and four footprints (one larger than the bound); monitor computes footprints with its own rule and "
                    "demands total <= max_memory, oversized values displace nothing, removals are explained by memory pressure or the entry limit; L1 functions with max_memory", "§7 C05"),
    "C06": ("seqx+macx", "explicit-state BFS under a frozen virtual clock with 1 s (sync) / 0.5 s (async) ticks, ages hit T-1, T, T+1 exactly; monitor: expired entries are never served and are purged, "
                    "unexpired ones are served, purged entries stop occupying capacity; L1 functions with ttl", "§7 C06"),
    "C07": ("seqx", "explicit-state BFS to closure for FIFO and LRU under entry and memory pressure; monitor: victims form a prefix of the ghost store order / last-use order", "§7 C07"),
    "C08": ("seqx", "explicit-state BFS for LFU/ARC/TLRU with ghost hit counts, recency ranks and exact ages; monitor: every victim is a score minimiser among the admissible candidates (ties free)", "§7 C08"),
    "C09": ("macx", "history enumeration over 72 Result functions (both spellings, three flavours) with every Ok/Err outcome script: Err never stored / served / evicting, first Ok stored and reused", "§7 C09"),
    "C10": ("macx", "history enumeration over 24 cache_if functions with every accept/reject script: consulted once per execution with that call's key and result, verdict decides storage", "§7 C10"),
    "C11": ("macx", "history enumeration over 24 invalidate_on functions with versioned bodies and every verdict script: stale entries never served, refreshed value replaces the stale one and is served next", "§7 C11"),
    "C12": ("macx", "history enumeration over groups covering all 128 metadata assignments (tags/events/dependencies subsets of {x,y}, sync and async): every by_tag/by_event/by_dependency/invalidate_cache request incl. undeclared names; count and emptied caches compared with the metadata", "§7 C12"),
    "C13": ("macx", "history enumeration with invalidate_with / invalidate_all_with for key subsets: exactly the matching keys go, bystanders untouched, and the C04-type monitors keep running after the invalidation", "§7 C13"),
    "C15": ("seqx+macx+thrx", "stats compared with the harness's own lookup/hit counts after every operation (L0 BFS, L1 histories incl. named caches and reset), and at quiescence for every schedule of concurrent callers with the counters' atomics as scheduling points", "§7 C15"),
    "C16": ("seqx+macx", "explicit-state BFS over the full configuration product with catch_unwind around every operation; L1 histories over every generated function", "§7 C16"),
    "C17": ("thrx", "every schedule (preemption bound 2/3, both rwlock fairness policies) of 920+ two/three-thread drivers mixing cached calls (hit/miss/overflow/expired/oversized) with every invalidation and statistics function; oracle: the scheduler's deadlock detection", "§7 C17"),
    "C18": ("thrx", "same drivers plus L0 drivers on harness-owned storage; oracle: values inside threads, bounds and store-vs-queue agreement at quiescence, then a sequential probe (fresh stores flush everything, entries expire, everything can be invalidated)", "§7 C18"),
}

checks = []
for p in props:
    pid = p["id"]
    if pid not in CLAIMS:
        continue
    eng, text, ref = CLAIMS[pid]
    checks.append({
        "property_id": pid,
        "quick_cmd": f"./check {pid} quick",
        "thorough_cmd": f"./check {pid} thorough",
        "evidence_file": f"/verif/evidence/{pid}.json",
        "replay_cmd_template": f"./check {pid} --replay {{path}}",
        "engine": eng,
        "level_claimed": {"category": "model_checking", "text": text, "design_ref": ref},
        "level_note": TRUST,
        "technique": "bounded exhaustive exploration of the implementation (explicit-state search / stateless schedule enumeration), no sampling, no solver",
    })

hooks_commit = subprocess.run(["git", "-C", "/repo", "log", "--format=%h", "--grep=verif-hooks feature"], capture_output=True, text=True).stdout.split()
manifest = {
    "version": 1,
    "setup_cmd": "./setup.sh",
    "hooks": {
        "guard": "cargo feature `verif-hooks` of cachelito-core (off by default)",
        "enable": "harness/engine depends on /repo/cachelito-core with features = [\"stats\", \"verif-hooks\"]; locks and fastrand are substituted with [patch.crates-io] in /verif/harness/Cargo.toml, no /repo change",
        "baseline_off_cmd": "cd /repo && cargo test --workspace --no-fail-fast --offline",
        "source_commits": hooks_commit,
        "add_only": True,
    },
    "engines": [
        {"name": "seqx", "path": "harness/engine/src/seqx.rs", "serves_properties": sorted(k for k, v in CLAIMS.items() if "seqx" in v[0]),
         "kind_free_text": "explicit-state breadth-first search over the real core caches (harness-owned storage), virtual clock, enumerated fastrand"},
        {"name": "macx", "path": "harness/engine/src/macx.rs", "serves_properties": sorted(k for k, v in CLAIMS.items() if "macx" in v[0]),
         "kind_free_text": "bounded-exhaustive history enumeration over a generated corpus of #[cache]/#[cache_async] functions, environment answers enumerated"},
        {"name": "thrx", "path": "harness/engine/src/thrx.rs", "serves_properties": sorted(k for k, v in CLAIMS.items() if "thrx" in v[0]),
         "kind_free_text": "stateless exploration of real OS threads under a controlled scheduler (vsched) with iterative preemption bounding; instrumented parking_lot/DashMap locks"},
    ],
    "checks": checks,
    "notes": "see DESIGN.md; known_findings.txt lists repaired defects (fixed:) and recorded findings (known:)",
    "not_applicable": [{"property_id": p["id"], "reason": "check not built yet (work in progress, see DESIGN.md §13 build order)"} for p in props if p["id"] not in CLAIMS],
}
json.dump(manifest, open(os.path.join(ROOT, "MANIFEST.json"), "w"), indent=1)
print("claimed:", [c["property_id"] for c in checks])
