#!/usr/bin/env python3
"""Regenerates /verif/MANIFEST.json from the table below (run after changing what is claimed)."""
import json, os, subprocess
ROOT = os.path.dirname(os.path.dirname(os.path.abspath(__file__)))
props = [json.loads(l) for l in open(os.path.join(ROOT, "properties.jsonl"))]

TRUST = ("trusted: rustc, std, lock_api, once_cell, hashbrown, the vendored DashMap 6.1.0 minus its lock, the parking_lot/dashmap/fastrand shims, "
         "the vsched scheduler and the monitors; bounded: small key alphabets, limits <= 4, ttl <= 3 s, depth / preemption bounds as reported in the evidence")

CLAIMS = {
    "C01": ("seqx+macx+shapex+thrx", "explicit-state BFS over the three core engines with two versions per key (last store wins, value encodes key) plus bounded-exhaustive history enumeration over 372 generated #[cache]/#[cache_async] functions (full flavour x policy x limit x ttl x memory product) whose values encode function, key and version; every returned value compared with the undecorated twin; every argument tuple of every signature shape (incl. pattern parameters) must get its own value back; plus every schedule (preemption bound 2/3) and verdict of a hit overlapping a refresh of the same key under the hit-counting policies: the superseded value does not come back", "§7 C01"),
    "C02": ("shapex", "bounded-exhaustive input enumeration: 72 signature shapes (1-5 arguments of integers, floats, bool, char, String, &str, Option, Vec, slices, tuples, nested containers, Debug-derived struct/enum/tuple struct; free functions and &self / self / &mut self methods; sync to_cache_key and async format! generators), "
                      "every argument tuple of the cartesian product of small adversarial domains called twice on an unlimited cache: executions = tuples = listed keys and every call returns its own tuple", "§7 C02"),
    "C03": ("macx+thrx+shapex", "every call sequence (depth 5/6) over 3 keys x 2 functions sharing key strings for all unlimited functions (incl. bodies that leave through return / ?, functions without arguments): executions = distinct tuples; the same count for every signature shape over its whole argument domain; plus every schedule (preemption bound 2/3, both rwlock policies) of 2-3 concurrent callers: nothing runs after a storing call returned", "§7 C03"),
    "C04": ("seqx+macx+thrx", "explicit-state BFS over the real cache engines (all three flavours x six policies x limits x ttl x memory), every random victim enumerated; "
                    "monitor: size <= limit after every operation and exactly the required number of removals per store; the same monitor on the key listing of generated functions; plus every schedule (preemption bound 2/3) of two or three concurrent stores: the limit holds once every caller has returned", "§7 C04"),
    "C05": ("seqx+macx+thrx", "explicit-state BFS with values of seven owned-heap types and four footprints (one larger than the bound); monitor computes footprints with its own rule and "
                    "demands total <= max_memory, oversized values displace nothing, removals are explained by memory pressure or the entry limit; L1 functions with max_memory; plus every schedule (preemption bound 2/3) of concurrent stores on memory-bounded functions and engines: the budget holds once every caller has returned, and the engine-level states are judged by sequential equivalence", "§7 C05, §5.3b"),
    "C06": ("seqx+macx", "explicit-state BFS under a frozen virtual clock with 1 s (sync) / 0.5 s (async) ticks, ages hit T-1, T, T+1 exactly; monitor: expired entries are never served and are purged, "
                    "unexpired ones are served, purged entries stop occupying capacity; L1 functions with ttl", "§7 C06"),
    "C07": ("seqx+thrx", "explicit-state BFS to closure for FIFO and LRU under entry and memory pressure; monitor: victims form a prefix of the ghost store order / last-use order; plus every schedule (preemption bound 2/3) of engine-level races at a full cache: the state the threads leave must behave, over every continuation of 4 further operations, like the state some sequential order of the same operations leaves (the implementation run sequentially is the reference)", "§7 C07, §5.3b"),
    "C08": ("seqx+thrx", "explicit-state BFS for LFU/ARC/TLRU with ghost hit counts, recency ranks and exact ages (async TLRU with half-second and with whole-second steps); monitor: every victim is a score minimiser among the admissible candidates (ties free); plus every schedule (preemption bound 2/3) of engine-level races at a full cache judged by sequential equivalence over every continuation of 4 operations", "§7 C08, §5.3b"),
    "C09": ("macx+thrx", "history enumeration over 84 Result functions (both spellings, three flavours, incl. bodies leaving through ?/return, ttl, and invalidate_on refreshes that fail) with every Ok/Err outcome script: Err never stored / served / evicting, first Ok stored and reused; plus every schedule (preemption bound 2/3) and every outcome of two or three concurrent callers of one Result function: a stored Ok survives any later Err", "§7 C09"),
    "C10": ("macx+thrx", "history enumeration over 36 cache_if functions (incl. with ttl, with invalidate_on, with both and a Result) with every accept/reject script: consulted once per execution with that call's key and result, verdict decides storage; plus every schedule (preemption bound 2/3) and every verdict of two or three concurrent callers: one consultation per execution, cached iff some execution was accepted", "§7 C10"),
    "C11": ("macx+thrx", "history enumeration over 36 invalidate_on functions (limits none/1/2, ttl, max_memory) with versioned bodies and every verdict script: stale entries never served, refreshed value replaces the stale one and is served next; plus every schedule (preemption bound 2/3) and every verdict of two or three concurrent callers: the value served is exactly the value shown to invalidate_on in that call", "§7 C11"),
    "C12": ("macx+thrx", "history enumeration over groups covering all 128 metadata assignments (tags/events/dependencies subsets of {x,y}, sync and async): every by_tag/by_event/by_dependency/invalidate_cache request incl. undeclared names; count and emptied caches compared with the metadata; plus every schedule (preemption bound 2/3) of two or three group invalidations racing with each other and with calls: counts stay exact and whatever a matching cache held before the threads started is gone; cold start: two caches sharing their metadata registering concurrently (one child process per schedule), then a request for every declared name", "§7 C12"),
    "C13": ("macx+thrx", "history enumeration with invalidate_with / invalidate_all_with for key subsets: exactly the matching keys go, bystanders untouched, and the C04-type monitors keep running after the invalidation; plus every schedule (preemption bound 2/3) of a lookup or a store overlapping with an invalidation of the same key, followed by a sequential continuation that pins the least-recently-used order exactly", "§7 C13, §7 C18"),
    "C14": ("thrx+macx+shapex", "every interleaving (operation-boundary granularity, no effective preemption bound) of 2-4 real OS threads calling thread-scope functions of every policy / limit, compared with each thread's program run alone on a fresh thread; "
                    "any dependence of a schedule on earlier executions (fresh threads each time) is reported as state outliving its thread; plus global/async drivers: what one thread stored every other thread is served; plus every call history of depth 5-6 with every assignment of its calls to 2-3 long-lived OS threads, each thread's calls compared with the same calls on a thread running alone; plus every signature shape with every argument tuple (incl. long arguments) stored by one OS thread and requested by a second: served without running the body", "§7 C14"),
    "C15": ("seqx+macx+thrx", "stats compared with the harness's own lookup/hit counts after every operation (L0 BFS, L1 histories incl. named caches and reset), and at quiescence for every schedule of concurrent callers with the counters' atomics as scheduling points", "§7 C15"),
    "C16": ("seqx+macx+thrx", "explicit-state BFS over the full configuration product with catch_unwind around every operation (harness built with arithmetic overflow checks); L1 histories over every generated function; plus every schedule (preemption bound 2/3) of the C17 driver matrix: no thread panics while operations overlap", "§7 C16"),
    "C17": ("thrx", "every schedule (preemption bound 2/3, both rwlock fairness policies) of 920+ two/three-thread drivers mixing cached calls (hit/miss/overflow/expired/oversized) with every invalidation and statistics function; oracle: the scheduler's deadlock detection", "§7 C17"),
    "C18": ("thrx", "same drivers plus L0 drivers on harness-owned storage; oracle: values inside threads, bounds and store-vs-queue agreement at quiescence, then a sequential probe (fresh stores flush everything, entries expire, everything can be invalidated); for the engine-level drivers the state left behind must behave, over every continuation of 3-4 further operations, like the state some sequential order of the same operations leaves, possibly minus entries (found defect D8)", "§7 C18, §5.3b"),
    "C19": ("cfgx", "program enumeration: 210 decorated functions (every attribute value in isolation and in pairs, three flavours, 0-4 arguments, methods, Result) driven through every history of depth 4 (6 for frequency_weight) and compared call for call with the core cache "
                    "constructed directly with the intended numbers; plus 63 invalid attribute lists that must each carry a compile error in their own span (7 valid controls must compile)", "§7 C19"),
    "C20": ("macx", "explicit enumeration of poll boundaries: bodies with 1-3 harness-controlled await points; every sequence (depth 5-7) of start / poll / open-gate / drop of one or two pending calls interleaved with completed calls and invalidations; "
                    "oracle: nothing blocks (a lock held across the suspension is a reported blocked acquisition), a suspended or dropped call leaves no entry and changes no statistics beyond its lookup, a resumed call stores normally", "§7 C20"),
}

checks = []
for p in props:
    pid = p["id"]
    if pid not in CLAIMS:
        continue
    eng, text, ref = CLAIMS[pid]
    checks.append({
        "property_id": pid,
        "quick_cmd": f"./check {pid} quick",
        "thorough_cmd": f"./check {pid} thorough",
        "evidence_file": f"/verif/evidence/{pid}.json",
        "replay_cmd_template": f"./check {pid} --replay {{path}}",
        "engine": eng,
        "level_claimed": {"category": "model_checking", "text": text, "design_ref": ref},
        "level_note": TRUST,
        "technique": "bounded exhaustive exploration of the implementation (explicit-state search / stateless schedule enumeration), no sampling, no solver",
    })

hooks_commit = subprocess.run(["git", "-C", "/repo", "log", "--format=%h", "--grep=verif-hooks feature"], capture_output=True, text=True).stdout.split()
manifest = {
    "version": 1,
    "setup_cmd": "./setup.sh",
    "hooks": {
        "guard": "cargo feature `verif-hooks` of cachelito-core (off by default)",
        "enable": "harness/engine depends on /repo/cachelito-core with features = [\"stats\", \"verif-hooks\"]; locks and fastrand are substituted with [patch.crates-io] in /verif/harness/Cargo.toml, no /repo change",
        "baseline_off_cmd": "cd /repo && cargo test --workspace --no-fail-fast --offline",
        "source_commits": hooks_commit,
        "add_only": True,
    },
    "engines": [
        {"name": "seqx", "path": "harness/engine/src/seqx.rs", "serves_properties": sorted(k for k, v in CLAIMS.items() if "seqx" in v[0]),
         "kind_free_text": "explicit-state breadth-first search over the real core caches (harness-owned storage), virtual clock, enumerated fastrand"},
        {"name": "macx", "path": "harness/engine/src/macx.rs", "serves_properties": sorted(k for k, v in CLAIMS.items() if "macx" in v[0]),
         "kind_free_text": "bounded-exhaustive history enumeration over a generated corpus of #[cache]/#[cache_async] functions, environment answers enumerated"},
        {"name": "shapex", "path": "harness/engine/src/shapes.rs", "serves_properties": ["C01", "C02"],
         "kind_free_text": "bounded-exhaustive enumeration of argument tuples over generated signature shapes"},
        {"name": "cfgx", "path": "harness/engine/src/cfgx.rs", "serves_properties": ["C19"],
         "kind_free_text": "program enumeration: generated attribute corpus vs directly constructed core caches (differential, every short history), plus a compile-fail corpus checked with cargo check JSON diagnostics"},
        {"name": "thrx", "path": "harness/engine/src/thrx.rs", "serves_properties": sorted(k for k, v in CLAIMS.items() if "thrx" in v[0]),
         "kind_free_text": "stateless exploration of real OS threads under a controlled scheduler (vsched) with iterative preemption bounding; instrumented parking_lot/DashMap locks"},
    ],
    "checks": checks,
    "notes": "see DESIGN.md; known_findings.txt lists repaired defects (fixed:) and recorded findings (known:)",
    "not_applicable": [{"property_id": p["id"], "reason": "check not built yet"} for p in props if p["id"] not in CLAIMS],
}
json.dump(manifest, open(os.path.join(ROOT, "MANIFEST.json"), "w"), indent=1)
print("claimed:", [c["property_id"] for c in checks])
