#!/usr/bin/env python3
"""Regenerates /verif/MANIFEST.json from the table below (run after changing what is claimed)."""
import json, os, subprocess
ROOT = os.path.dirname(os.path.dirname(os.path.abspath(__file__)))
props = [json.loads(l) for l in open(os.path.join(ROOT, "properties.jsonl"))]

TRUST = ("trusted: rustc, std, lock_api, once_cell, hashbrown, the vendored DashMap 6.1.0 minus its lock, the parking_lot/dashmap/fastrand shims, "
         "the vsched scheduler and the monitors; bounded: small key alphabets, limits <= 4, ttl <= 3 s, depth / preemption bounds as reported in the evidence")

CLAIMS = {
    "C04": ("seqx", "explicit-state BFS over the real cache engines (all three flavours x six policies x limits x ttl x memory), every random victim enumerated; "
                    "monitor: size <= limit after every operation and exactly the required number of removals per store", "§7 C04"),
    "C05": ("seqx", "explicit-state BFS with values of seven owned-heap types and four footprints (one larger than the bound); monitor computes footprints with its own rule and "
                    "demands total <= max_memory, oversized values displace nothing, removals are explained by memory pressure or the entry limit", "§7 C05"),
    "C06": ("seqx", "explicit-state BFS under a frozen virtual clock with 1 s (sync) / 0.5 s (async) ticks, ages hit T-1, T, T+1 exactly; monitor: expired entries are never served and are purged, "
                    "unexpired ones are served, purged entries stop occupying capacity", "§7 C06"),
    "C07": ("seqx", "explicit-state BFS to closure for FIFO and LRU under entry and memory pressure; monitor: victims form a prefix of the ghost store order / last-use order", "§7 C07"),
    "C08": ("seqx", "explicit-state BFS for LFU/ARC/TLRU with ghost hit counts, recency ranks and exact ages; monitor: every victim is a score minimiser among the admissible candidates (ties free)", "§7 C08"),
    "C16": ("seqx", "explicit-state BFS over the full configuration product with catch_unwind around every operation", "§7 C16"),
}

checks = []
for p in props:
    pid = p["id"]
    if pid not in CLAIMS:
        continue
    eng, text, ref = CLAIMS[pid]
    checks.append({
        "property_id": pid,
        "quick_cmd": f"./check {pid} quick",
        "thorough_cmd": f"./check {pid} thorough",
        "evidence_file": f"/verif/evidence/{pid}.json",
        "replay_cmd_template": f"./check {pid} --replay {{path}}",
        "engine": eng,
        "level_claimed": {"category": "model_checking", "text": text, "design_ref": ref},
        "level_note": TRUST,
        "technique": "bounded exhaustive exploration of the implementation (explicit-state search / stateless schedule enumeration), no sampling, no solver",
    })

hooks_commit = subprocess.run(["git", "-C", "/repo", "log", "--format=%h", "--grep=verif-hooks feature"], capture_output=True, text=True).stdout.split()
manifest = {
    "version": 1,
    "setup_cmd": "./setup.sh",
    "hooks": {
        "guard": "cargo feature `verif-hooks` of cachelito-core (off by default)",
        "enable": "harness/engine depends on /repo/cachelito-core with features = [\"stats\", \"verif-hooks\"]; locks and fastrand are substituted with [patch.crates-io] in /verif/harness/Cargo.toml, no /repo change",
        "baseline_off_cmd": "cd /repo && cargo test --workspace --no-fail-fast --offline",
        "source_commits": hooks_commit,
        "add_only": True,
    },
    "engines": [
        {"name": "seqx", "path": "harness/engine/src/seqx.rs", "serves_properties": sorted(k for k, v in CLAIMS.items() if v[0] == "seqx"),
         "kind_free_text": "explicit-state breadth-first search over the real core caches (harness-owned storage), virtual clock, enumerated fastrand"},
    ],
    "checks": checks,
    "notes": "see DESIGN.md; known_findings.txt lists repaired defects (fixed:) and recorded findings (known:)",
    "not_applicable": [{"property_id": p["id"], "reason": "check not built yet (work in progress, see DESIGN.md §13 build order)"} for p in props if p["id"] not in CLAIMS],
}
json.dump(manifest, open(os.path.join(ROOT, "MANIFEST.json"), "w"), indent=1)
print("claimed:", [c["property_id"] for c in checks])
