#!/bin/bash
# usage: try_seed.sh <diff> <tier> <property>...   applies the diff to /repo, runs the checks, reverts
diff=$1; tier=$2; shift 2
git -C /repo apply "$diff" || { echo "cannot apply $diff"; exit 2; }
for p in "$@"; do
  out=$(cd /verif && ./check $p $tier 2>&1)
  rc=$?
  echo "[$p rc=$rc] $(echo "$out" | grep -c '^VIOLATION') violation lines; $(echo "$out" | tail -1)"
  echo "$out" | grep -A1 '^VIOLATION' | grep signature | cut -c1-260 | head -4
done
git -C /repo checkout -- .
