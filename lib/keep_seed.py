#!/usr/bin/env python3
"""keep_seed.py <worktree> <seed-id> <property> <needs> <checks-that-catch, comma separated> <confirm-log>
Copies a confirmed seeded change into /verif/seeded/<seed-id>/ (patch.diff, demonstration, meta.json)."""
import json, os, shutil, subprocess, sys
wt, sid, prop, needs, caught, conf = sys.argv[1:7]
dst = f"/verif/seeded/{sid}"
os.makedirs(dst, exist_ok=True)
shutil.copy(os.path.join(wt, "SEEDED.diff"), os.path.join(dst, "patch.diff"))
if os.path.exists(os.path.join(wt, "SEEDED_DEMO.md")):
    shutil.copy(os.path.join(wt, "SEEDED_DEMO.md"), os.path.join(dst, "DEMO.md"))
c = json.loads(open(conf).read().strip().splitlines()[-1])
demos = c["demo_files"].split()
for d in demos:
    os.makedirs(os.path.join(dst, "demo", os.path.dirname(d)), exist_ok=True)
    shutil.copy(os.path.join(wt, d), os.path.join(dst, "demo", d))
meta = {
    "seed": sid,
    "breaks_property": prop,
    "origin": "fresh sub-agent given only the property text and a scratch worktree",
    "needs_to_manifest": needs,
    "files_changed": subprocess.run(["git", "-C", wt, "apply", "--numstat", "-R", "SEEDED.diff"], capture_output=True, text=True).stdout.split("\n")[:-1],
    "demonstration": demos,
    "confirmed": {
        "how": "lib/confirm_seed.sh in the sub-agent's scratch worktree: cargo test --workspace --offline --no-fail-fast with the change applied and with it reverted",
        "with_change_failing_tests (all in the demonstration)": c["with_change_failed"].split(),
        "with_change_passed": c["with_change_passed"],
        "without_change_failing_tests": c["without_change_failed"].split(),
        "without_change_passed": c["without_change_passed"],
    },
    "detected_by": caught.split(","),
    "detection_run": "lib/try_seed.sh seeded/%s/patch.diff quick %s  (git -C /repo apply; ./check <ID> quick; git -C /repo checkout -- .)" % (sid, " ".join(x.split()[0] for x in caught.split(","))),
}
json.dump(meta, open(os.path.join(dst, "meta.json"), "w"), indent=1)
print("kept", sid)
