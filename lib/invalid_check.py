"""C19, second half: the invalid-attribute corpus must be rejected at compile time, site by site."""
import json, os, subprocess

HARNESS = os.path.join(os.path.dirname(os.path.dirname(os.path.abspath(__file__))), "harness")


def diagnostics():
    env = dict(os.environ, CARGO_NET_OFFLINE="true")
    p = subprocess.run(["cargo", "check", "--offline", "-p", "invalid", "--message-format=json"], cwd=HARNESS, env=env,
                       stdout=subprocess.PIPE, stderr=subprocess.PIPE, text=True)
    sites = json.load(open(os.path.join(HARNESS, "invalid", "sites.json")))
    errs, other, dep_failed = {}, [], False
    for line in p.stdout.splitlines():
        try:
            m = json.loads(line)
        except json.JSONDecodeError:
            continue
        if m.get("reason") == "build-finished":
            continue
        if m.get("reason") != "compiler-message":
            continue
        if "invalid" not in m.get("package_id", "") and m["message"]["level"] == "error":
            dep_failed = True
        msg = m["message"]
        if msg["level"] != "error":
            continue
        lines = set()

        def walk(sp):
            if sp["file_name"].replace("\\", "/").endswith("invalid/src/lib.rs"):
                lines.add(sp["line_start"])
            if sp.get("expansion"):
                walk(sp["expansion"]["span"])
        for sp in msg["spans"]:
            walk(sp)
        hit = False
        for s in sites:
            if any(s["first_line"] <= x <= s["last_line"] for x in lines):
                errs.setdefault(s["site"], []).append(msg["message"])
                hit = True
        if not hit and msg["spans"]:
            other.append(msg["message"])
    return sites, errs, other, dep_failed, p


def run():
    """-> (records, violations, machinery_error or None)"""
    sites, errs, other, dep_failed, p = diagnostics()
    if dep_failed or (not errs and p.returncode != 0 and "error" in p.stderr and "could not compile `invalid`" not in p.stderr):
        return [], [], "the invalid-attribute corpus could not be checked (a dependency failed to build): " + p.stderr[-800:]
    violations = []
    for s in sites:
        rejected = s["site"] in errs
        if not s["valid"] and not rejected:
            violations.append({
                "property": "C19", "signature": f"C19/invalid-attribute-accepted/{s['kind']}/{s['macro']}",
                "detail": f"#[{s['macro']}({s['attrs']})] compiled without any error at its site: the invalid {s['kind']} is silently accepted",
                "replay": {"engine": "invalid", "site": s["site"], "macro": s["macro"], "attrs": s["attrs"]}})
        if s["valid"] and rejected:
            violations.append({
                "property": "C19", "signature": f"C19/valid-attribute-rejected/{s['macro']}",
                "detail": f"#[{s['macro']}({s['attrs']})] is a valid attribute list but was rejected: {errs[s['site']][0][:200]}",
                "replay": {"engine": "invalid", "site": s["site"], "macro": s["macro"], "attrs": s["attrs"]}})
    rec = {
        "sites": len(sites), "invalid_sites": sum(1 for s in sites if not s["valid"]), "control_sites": sum(1 for s in sites if s["valid"]),
        "invalid_sites_rejected": sum(1 for s in sites if not s["valid"] and s["site"] in errs),
        "control_sites_accepted": sum(1 for s in sites if s["valid"] and s["site"] not in errs),
        "kinds": sorted(set(s["kind"] for s in sites)),
        "samples": [{"attribute_list": f"#[{s['macro']}({s['attrs']})]", "diagnostic": (errs.get(s["site"]) or ["<none>"])[0][:160]} for s in sites[:4]],
        "errors_outside_any_site": other[:3],
    }
    return [("invalid", "INVALID", rec)], violations, None


def replay(site):
    sites, errs, other, dep_failed, p = diagnostics()
    s = sites[site]
    print(f"#[{s['macro']}({s['attrs']})]  (kind: {s['kind']}, expected to {'compile' if s['valid'] else 'be rejected'})")
    for e in errs.get(site, []):
        print("  error:", e[:300])
    bad = (s["site"] in errs) == s["valid"]
    print(f"violation reproduced: {bad}")
    return 1 if bad else 0
