#!/bin/bash
# Self-test of the machinery (DESIGN §5.5, §12):
#   ./selftest.sh conformance   shim build vs real parking_lot/DashMap build (identical digests)
#   ./selftest.sh mutations     every hand-written mutation and every kept seed must be reported by the
#                               quick tier of its property (applied to /repo, checked, reverted)
#   ./selftest.sh               both
# Exit 0 if everything is as expected, 3 otherwise. Never run concurrently with other checks
# (it edits /repo's working tree and restores it).
cd "$(dirname "$0")"
what=${1:-all}
rc=0
if [ "$what" = conformance ] || [ "$what" = all ]; then
  lib/conformance.sh || rc=3
fi
if [ "$what" = mutations ] || [ "$what" = all ]; then
  if [ -n "$(git -C /repo status --porcelain)" ]; then echo "MACHINERY-FAILURE: /repo has uncommitted changes"; exit 3; fi
  run() { # <patch> <property>
    out=$(lib/try_seed.sh "$1" quick "$2" 2>&1 | head -1)
    if echo "$out" | grep -q "rc=1"; then echo "detected   $2 $(basename $(dirname $1))/$(basename $1)"; else echo "NOT DETECTED $2 $1 :: $out"; rc=3; fi
  }
  quiet() { # <patch> <properties...>: a legitimate change, no check may raise an alarm
    patch=$1; shift
    out=$(lib/try_seed.sh "$patch" quick "$@" 2>&1 | grep '^\[')
    if echo "$out" | grep -qv "rc=0"; then echo "FALSE ALARM on $(basename $patch): $out"; rc=3; else echo "quiet      $* $(basename $patch)"; fi
  }
  for p in mutations/NEG-*.patch; do quiet "$PWD/$p" C01 C04 C05 C06 C07 C08 C13 C16; done
  for p in mutations/C*.patch; do
    case "$(basename $p)" in
      C20-shard-guard-held-across-await.patch|C20-dropped-call-leaves-marker.patch) continue;; # equivalent mutants, see DESIGN §12.2
    esac
    run "$PWD/$p" "$(basename $p | cut -c1-3)"
  done
  for d in seeded/S*/; do
    prop=$(python3 -c "import json,sys; print(json.load(open('$d/meta.json'))['breaks_property'])")
    run "$PWD/${d}patch.diff" "$prop"
  done
  git -C /repo checkout -- . ; (cd harness && cargo build --release --offline 2>&1 | tail -1)
fi
exit $rc
