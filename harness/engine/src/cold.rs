//! Cold-start drivers of the threaded engine: the *first* call of a generated function registers
//! its statistics, its metadata and its two invalidation callbacks (`Once` / `OnceCell`, once per
//! process). To explore that registration racing with invalidations, statistics queries and the
//! first calls of other functions, every execution runs in a fresh child process (nothing warmed
//! up); the parent holds the depth-first stack of schedule prefixes and judges the children's
//! reports. After each execution the child audits the registries sequentially: everything that was
//! used must be reachable by name, tag, event and dependency.
//!
//! Two threads never make the first call of the *same* function (they would block each other
//! inside std's `Once` while holding the scheduler's baton); first calls of different functions
//! and any mix of invalidations and statistics queries are fine.
use crate::common::*;
use crate::corpus_gen::FUNCS;
use crate::json::{self, J};
use crate::l1;
use crate::thrx::{self, Driver, DriverResult, Prepared, SOp, TFinding, TOp};
use std::collections::BTreeMap;
use vsched::{PointKind, RwPolicy};

pub fn is_cold(d: &Driver) -> bool {
    d.label.starts_with("COLD:")
}

/// sequential audit after a cold execution: the registries know everything that was used
pub fn registration_audit(p: &Prepared, events: &[thrx::OpEvent]) -> Vec<TFinding> {
    let mut fs = Vec::new();
    let used: Vec<&'static l1::FnInfo> = p
        .funcs
        .iter()
        .copied()
        .filter(|f| {
            f.flavour != Flavour::Thread
                && (events.iter().any(|e| matches!(&e.op, TOp::Call { f: ff, .. } if *ff == f.id)) || p.driver.setup.iter().any(|s| matches!(s, SOp::Op(TOp::Call { f: ff, .. }) if *ff == f.id)))
        })
        .collect();
    for f in &used {
        let flav = f.flavour.name();
        if l1::stats_of(f.name).is_none() {
            fs.push(TFinding { property: "C15", monitor: format!("{flav}/cold/statistics-not-registered"), detail: format!("{} was called but stats_registry::get({:?}) is None", f.fn_name, f.name) });
        }
        if l1::list_keys(f.name).is_none() {
            fs.push(TFinding { property: "C13", monitor: format!("{flav}/cold/invalidation-callback-not-registered"), detail: format!("{} was called but invalidate_with({:?}, ..) finds no cache", f.fn_name, f.name) });
        }
        if !f.has_meta() {
            continue;
        }
        let kinds: [(&str, &[&str], fn(&str) -> usize); 3] = [
            ("tag", f.tags, |x| cachelito_core::invalidate_by_tag(x)),
            ("event", f.events, |x| cachelito_core::invalidate_by_event(x)),
            ("dependency", f.deps, |x| cachelito_core::invalidate_by_dependency(x)),
        ];
        for (kind, declared, inv) in kinds {
            for d in declared {
                let _ = (f.call)(30);
                let want = used
                    .iter()
                    .filter(|g| match kind {
                        "tag" => g.tags.contains(d),
                        "event" => g.events.contains(d),
                        _ => g.deps.contains(d),
                    })
                    .count();
                let n = inv(d);
                let left = l1::list_keys(f.name).unwrap_or_default();
                if n != want || !left.is_empty() {
                    fs.push(TFinding {
                        property: "C12",
                        monitor: format!("{flav}/cold/registration-lost/{kind}"),
                        detail: format!("after every thread returned, invalidate_by_{kind}({d:?}) returned {n} ({want} used caches declare it) and {} holds {:?}", f.fn_name, left),
                    });
                }
            }
        }
        let _ = (f.call)(30);
        if !cachelito_core::invalidate_cache(f.name) || !l1::list_keys(f.name).unwrap_or_default().is_empty() {
            fs.push(TFinding { property: "C12", monitor: format!("{flav}/cold/registration-lost/name"), detail: format!("invalidate_cache({:?}) does not reach {}", f.name, f.fn_name) });
        }
    }
    fs
}

/// child: one execution in this (fresh) process, report as one JSON record
pub fn cold_exec(d: &Driver, pol: RwPolicy, prefix: &[usize]) -> J {
    let prep = Prepared::new_cold(d);
    let out = vsched::run(prefix, &[], prep.make_threads(), pol, 20_000);
    let mut q = thrx::check_execution(&prep, &out);
    if out.deadlock.is_none() && out.panics.is_empty() {
        let events = prep.events.lock().unwrap().clone();
        q.findings.extend(registration_audit(&prep, &events));
    }
    J::obj()
        .set(
            "points",
            J::Arr(
                out.points
                    .iter()
                    .map(|p| J::Arr(vec![J::Int(if p.kind == PointKind::Sched { 0 } else { 1 }), J::Int(p.enabled.len() as i64), J::Int(p.chosen as i64), J::Bool(p.running_enabled), J::Str(format!("{:x}", vsched::fingerprint(p.kind, p.thread, &p.enabled)))]))
                    .collect(),
            ),
        )
        .set("diverged", out.diverged.clone())
        .set("capped", out.capped)
        .set("deadlock", out.deadlock.is_some())
        .set("schedule_rendered", J::Arr(out.render_schedule().into_iter().map(J::Str).collect()))
        .set("observation", q.observation.clone())
        .set("findings", J::Arr(q.findings.iter().map(|f| J::obj().set("property", f.property).set("monitor", f.monitor.clone()).set("detail", f.detail.clone())).collect()))
}

fn spawn_child(property: &str, thorough: bool, idx: usize, pol: RwPolicy, prefix: &[usize], seed: u64) -> Result<J, String> {
    let exe = std::env::current_exe().map_err(|e| e.to_string())?;
    let pre = prefix.iter().map(|x| x.to_string()).collect::<Vec<_>>().join(",");
    let out = std::process::Command::new(exe)
        .args(["thrx", "--property", property, "--tier", if thorough { "thorough" } else { "quick" }, "--driver", &idx.to_string(), "--cold-exec", "1", "--rw-policy", thrx::policy_name(pol), "--prefix", if pre.is_empty() { "-" } else { &pre }, "--hash-seed", &seed.to_string()])
        .output()
        .map_err(|e| e.to_string())?;
    let text = String::from_utf8_lossy(&out.stdout);
    for line in text.lines() {
        if let Some(body) = line.strip_prefix("@@EXEC ") {
            return json::parse(body);
        }
    }
    Err(format!("cold child ended without a report (status {:?}): {}", out.status.code(), String::from_utf8_lossy(&out.stderr)))
}

/// parent: depth-first over schedule prefixes, one child process per execution
pub fn explore_cold(d: &Driver, idx: usize, property: &str, thorough: bool, max_bound: usize, max_execs: u64) -> DriverResult {
    let mut res = DriverResult { schedules: 0, by_bound: Vec::new(), max_points: 0, points_total: 0, deadlocks: 0, distinct_observations: 0, violations: Vec::new(), sample: J::Null, exec_cap_hit: false, bound_used: max_bound };
    let mut observations = std::collections::BTreeSet::new();
    let mut per_sig: BTreeMap<String, usize> = BTreeMap::new();
    let seeds = order_seeds(d);
    for (pol, seed) in [RwPolicy::ReadersBarge, RwPolicy::WriterPreference].into_iter().flat_map(|p| seeds.iter().map(move |s| (p, *s))) {
        let mut execs = 0u64;
        let mut stack: Vec<(Vec<usize>, Vec<String>)> = vec![(Vec::new(), Vec::new())];
        while let Some((prefix, expect)) = stack.pop() {
            if execs >= max_execs {
                res.exec_cap_hit = true;
                break;
            }
            let r = match spawn_child(property, thorough, idx, pol, &prefix, seed) {
                Ok(r) => r,
                Err(e) => vsched::machinery_failure(&format!("cold driver {}: {e}", d.label)),
            };
            execs += 1;
            if let Some(dv) = r.get("diverged").and_then(|x| x.as_str()) {
                vsched::machinery_failure(&format!("cold driver {}: {dv}", d.label));
            }
            if matches!(r.get("capped"), Some(J::Bool(true))) {
                vsched::machinery_failure(&format!("cold driver {}: step cap hit", d.label));
            }
            let pts: Vec<(bool, usize, usize, bool, String)> = r
                .get("points")
                .and_then(|x| x.as_arr())
                .map(|a| {
                    a.iter()
                        .filter_map(|p| {
                            let p = p.as_arr()?;
                            Some((p[0].as_i64()? == 0, p[1].as_i64()? as usize, p[2].as_i64()? as usize, matches!(p[3], J::Bool(true)), p[4].as_str()?.to_string()))
                        })
                        .collect()
                })
                .unwrap_or_default();
            // the child replayed our prefix: the enabled sets must be the ones we recorded
            for (i, fp) in expect.iter().enumerate() {
                if pts.get(i).map(|p| &p.4) != Some(fp) {
                    vsched::machinery_failure(&format!("cold driver {}: child diverged from the recorded prefix at point {i}", d.label));
                }
            }
            res.points_total += pts.len() as u64;
            res.max_points = res.max_points.max(pts.len());
            if matches!(r.get("deadlock"), Some(J::Bool(true))) {
                res.deadlocks += 1;
            }
            let obs = r.get("observation").and_then(|x| x.as_str()).unwrap_or("").to_string();
            let preempts = pts.iter().filter(|p| p.0 && p.3 && p.2 != 0).count();
            observations.insert(obs.clone());
            if let Some(fl) = r.get("findings").and_then(|x| x.as_arr()) {
                for f in fl {
                    let prop = f.get("property").and_then(|x| x.as_str()).unwrap_or("");
                    if prop != property {
                        continue;
                    }
                    let mon = f.get("monitor").and_then(|x| x.as_str()).unwrap_or("");
                    let sig = format!("{prop}/{mon}");
                    let c = per_sig.entry(sig.clone()).or_insert(0);
                    *c += 1;
                    if *c <= 1 {
                        let prop_static: &'static str = match prop {
                            "C12" => "C12",
                            "C13" => "C13",
                            "C15" => "C15",
                            "C18" => "C18",
                            "C03" => "C03",
                            _ => "C17",
                        };
                        res.violations.push(Violation {
                            property: prop_static,
                            signature: sig,
                            detail: format!("{} | driver {} (every execution in a fresh process) | {} | {} preemptions | schedule {}", f.get("detail").and_then(|x| x.as_str()).unwrap_or(""), d.label, thrx::policy_name(pol), preempts, r.get("schedule_rendered").map(|x| x.render()).unwrap_or_default()),
                            replay: J::obj()
                                .set("engine", "thrx")
                                .set("cold", true)
                                .set("property", prop)
                                .set("driver_index", idx)
                                .set("tier", if thorough { "thorough" } else { "quick" })
                                .set("driver", d.to_json())
                                .set("rw_policy", thrx::policy_name(pol))
                                .set("hash_seed", seed)
                                .set("schedule", J::Arr(pts.iter().map(|p| J::Int(p.2 as i64)).collect())),
                        });
                    }
                }
            }
            if res.sample == J::Null || pts.len() >= res.max_points {
                res.sample = J::obj().set("driver", d.label.clone()).set("rw_policy", thrx::policy_name(pol)).set("preemptions", preempts).set("schedule", r.get("schedule_rendered").cloned().unwrap_or(J::Null)).set("observed", obs);
            }
            // children of this execution
            let mut cost = pts[..prefix.len().min(pts.len())].iter().filter(|p| p.0 && p.3 && p.2 != 0).count();
            let mut kids = Vec::new();
            for i in prefix.len()..pts.len() {
                let p = &pts[i];
                let step = usize::from(p.0 && p.3);
                if cost + step <= max_bound {
                    for alt in 1..p.1 {
                        let mut np: Vec<usize> = pts[..i].iter().map(|q| q.2).collect();
                        np.push(alt);
                        kids.push((np, pts[..=i].iter().map(|q| q.4.clone()).collect::<Vec<_>>()));
                    }
                }
                if p.0 && p.3 && p.2 != 0 {
                    cost += 1;
                }
            }
            kids.reverse();
            stack.extend(kids);
        }
        res.by_bound.push((max_bound, format!("{}/registry-order-seed-{seed}", thrx::policy_name(pol)), execs));
        res.schedules += execs;
    }
    res.distinct_observations = observations.len();
    res
}

/// Hash seeds under which the registries iterate the driver's cache names in different orders:
/// one seed if at most one cache can match a request, otherwise one seed per distinct order found
/// among seeds 0..32 (for two names: both orders).
pub fn order_seeds(d: &Driver) -> Vec<u64> {
    let names: Vec<&'static str> = d.funcs().iter().filter(|f| f.flavour != Flavour::Thread && f.has_meta()).map(|f| f.name).collect();
    let shared = names.len() >= 2 && {
        let fs: Vec<&'static l1::FnInfo> = d.funcs().into_iter().filter(|f| f.flavour != Flavour::Thread).collect();
        fs.iter().enumerate().any(|(i, a)| fs.iter().skip(i + 1).any(|b| a.tags.iter().any(|t| b.tags.contains(t)) || a.events.iter().any(|t| b.events.contains(t)) || a.deps.iter().any(|t| b.deps.contains(t))))
    };
    if !shared {
        return vec![0];
    }
    let mut seen: Vec<Vec<String>> = Vec::new();
    let mut seeds = Vec::new();
    for seed in 0..32u64 {
        cachelito_core::verif_hooks::set_hash_seed(seed);
        let mut set = cachelito_core::verif_hooks::HashSet::<String>::new();
        for n in &names {
            set.insert(n.to_string());
        }
        let order: Vec<String> = set.iter().cloned().collect();
        if !seen.contains(&order) {
            seen.push(order);
            seeds.push(seed);
        }
        if seeds.len() >= 2 {
            break;
        }
    }
    cachelito_core::verif_hooks::set_hash_seed(0);
    seeds
}

fn pick(fl: Flavour, pol: Pol, limit: Option<usize>) -> &'static l1::FnInfo {
    FUNCS.iter().find(|f| f.family == "conc" && f.flavour == fl && f.pol() == pol && f.limit == limit && f.ttl.is_none() && f.mem.is_none() && !f.deps.is_empty()).unwrap_or_else(|| vsched::machinery_failure("cold driver function not in the corpus"))
}

/// cold drivers: first calls racing with group invalidations, statistics queries and each other
pub fn drivers_for(property: &str, thorough: bool) -> Vec<Driver> {
    let mut out = Vec::new();
    if !matches!(property, "C12" | "C17" | "C18" | "C15") {
        return out;
    }
    let mut out2: Vec<Driver> = Vec::new();
    let mut push = |label: String, threads: Vec<Vec<TOp>>| out.push(Driver { label: format!("COLD:{label}"), setup: Vec::<SOp>::new(), threads, l0: None, atomic_points: false });
    for fl in [Flavour::Global, Flavour::Async] {
        let f = pick(fl, Pol::Lru, Some(1));
        // the second function shares no tag / event / dependency with the first: a group request then
        // matches at most one cache, so the (unowned, RandomState) iteration order of the registry's
        // name sets cannot influence the schedule
        let g = FUNCS
            .iter()
            .find(|x| x.family == "meta" && x.flavour == fl && x.tags == ["x"] && x.events == ["y"] && x.deps.is_empty() && x.name == x.fn_name)
            .unwrap_or_else(|| vsched::machinery_failure("cold driver: second function not in the corpus"));
        let first = |x: &l1::FnInfo, k: u32| TOp::Call { f: x.id, k };
        let reqs: Vec<(&str, TOp)> = vec![
            ("by_tag", TOp::ByTag("t".into())),
            ("by_event", TOp::ByEvent("e".into())),
            ("by_dep", TOp::ByDep("d".into())),
            ("invalidate_cache", TOp::InvCache { f: f.id }),
            ("invalidate_all_with", TOp::InvAllWith { f: f.id, mask: u32::MAX }),
            ("stats", TOp::StatsList),
        ];
        for (rn, r) in &reqs {
            push(format!("{}:first-call~{}", f.fn_name, rn), vec![vec![first(f, 1)], vec![r.clone()]]);
            if thorough || matches!(*rn, "by_dep" | "by_tag") {
                push(format!("{}:first-call+second~{}x2", f.fn_name, rn), vec![vec![first(f, 1), first(f, 2)], vec![r.clone(), r.clone()]]);
            }
        }
        push(format!("{}+{}:two first calls", f.fn_name, g.fn_name), vec![vec![first(f, 1)], vec![first(g, 1)]]);
        // two caches that share their tag, event and dependency register at the same time: both must end up in
        // the registry's tables (judged after quiescence by a request for each shared name)
        let sib = pick(fl, Pol::Fifo, None);
        push(format!("{}+{}:two first calls, shared metadata", f.fn_name, sib.fn_name), vec![vec![first(f, 1)], vec![first(sib, 1)]]);
        // a warm sibling that shares tag / event / dependency with the function making its first call:
        // the request then visits two caches, in both orders (two registry hash seeds)
        let h = pick(fl, Pol::Fifo, None);
        for (rn, r) in reqs.iter().take(3) {
            out2.push(Driver { label: format!("COLD:{}:first-call~{} [warm sibling {}]", f.fn_name, rn, h.fn_name), setup: vec![SOp::Op(first(h, 1))], threads: vec![vec![first(f, 1)], vec![r.clone()]], l0: None, atomic_points: false });
        }
        if thorough {
            // three threads: ~5 500 child processes per driver and policy
            push(format!("{}+{}:two first calls~by_tag t", f.fn_name, g.fn_name), vec![vec![first(f, 1)], vec![first(g, 1)], vec![TOp::ByTag("t".into())]]);
            push(format!("{}+{}:two first calls~by_tag x", f.fn_name, g.fn_name), vec![vec![first(f, 1)], vec![first(g, 1)], vec![TOp::ByTag("x".into())]]);
            push(format!("{}+{}:two first calls~by_dep d", f.fn_name, g.fn_name), vec![vec![first(f, 1)], vec![first(g, 1)], vec![TOp::ByDep("d".into())]]);
            push(format!("{}+{}:two first calls~by_event y", f.fn_name, g.fn_name), vec![vec![first(f, 1)], vec![first(g, 1)], vec![TOp::ByEvent("y".into())]]);
        }
    }
    out.extend(out2);
    out
}
