//! E3 `thrx` — real threads under the controlled scheduler, iterative preemption bounding
//! (DESIGN §5.3). One process per driver, so that the set of registered caches (which
//! `invalidate_all_with`, `invalidate_by_*` and `stats_registry::list` iterate) is exactly the
//! driver's own and every recorded schedule replays in a fresh process.
use crate::common::*;
use crate::corpus_gen::FUNCS;
use crate::json::J;
use crate::l1::{self, Ev, FnInfo, Ret};
use crate::seqx;
use std::collections::{BTreeMap, BTreeSet};
use std::sync::atomic::{AtomicU64, Ordering};
use std::sync::{Arc, Mutex};
use vsched::{Outcome, RwPolicy, Thunk};

const NS: u64 = 1_000_000_000;
const START_NS: u64 = 1000 * NS;

#[derive(Clone, Debug, PartialEq)]
pub enum TOp {
    Call { f: u32, k: u32 },
    InvWith { f: u32, mask: u32 },
    InvAllWith { f: u32, mask: u32 },
    ByTag(String),
    ByEvent(String),
    ByDep(String),
    InvCache { f: u32 },
    StatsGet { f: u32 },
    StatsReset { f: u32 },
    StatsList,
    // L0 operations on harness-owned storage
    L0Get(u8),
    L0Put(u8, u8),
    L0Clear,
}

impl TOp {
    pub fn kind(&self) -> &'static str {
        match self {
            TOp::Call { .. } => "call",
            TOp::InvWith { .. } => "invalidate_with",
            TOp::InvAllWith { .. } => "invalidate_all_with",
            TOp::ByTag(_) => "invalidate_by_tag",
            TOp::ByEvent(_) => "invalidate_by_event",
            TOp::ByDep(_) => "invalidate_by_dependency",
            TOp::InvCache { .. } => "invalidate_cache",
            TOp::StatsGet { .. } => "stats_get",
            TOp::StatsReset { .. } => "stats_reset",
            TOp::StatsList => "stats_list",
            TOp::L0Get(_) => "get",
            TOp::L0Put(..) => "insert",
            TOp::L0Clear => "clear",
        }
    }
    pub fn render(&self) -> String {
        match self {
            TOp::Call { f, k } => format!("call {f} {k}"),
            TOp::InvWith { f, mask } => format!("invalidate_with {f} {mask}"),
            TOp::InvAllWith { f, mask } => format!("invalidate_all_with {f} {mask}"),
            TOp::ByTag(t) => format!("by_tag {t}"),
            TOp::ByEvent(t) => format!("by_event {t}"),
            TOp::ByDep(t) => format!("by_dep {t}"),
            TOp::InvCache { f } => format!("invalidate_cache {f}"),
            TOp::StatsGet { f } => format!("stats_get {f}"),
            TOp::StatsReset { f } => format!("stats_reset {f}"),
            TOp::StatsList => "stats_list".into(),
            TOp::L0Get(k) => format!("l0get {k}"),
            TOp::L0Put(k, v) => format!("l0put {k} {v}"),
            TOp::L0Clear => "l0clear".into(),
        }
    }
    pub fn parse(s: &str) -> Option<TOp> {
        let p: Vec<&str> = s.split_whitespace().collect();
        let n = |i: usize| -> Option<u32> { p.get(i)?.parse().ok() };
        Some(match p.first().copied()? {
            "call" => TOp::Call { f: n(1)?, k: n(2)? },
            "invalidate_with" => TOp::InvWith { f: n(1)?, mask: n(2)? },
            "invalidate_all_with" => TOp::InvAllWith { f: n(1)?, mask: n(2)? },
            "by_tag" => TOp::ByTag(p.get(1)?.to_string()),
            "by_event" => TOp::ByEvent(p.get(1)?.to_string()),
            "by_dep" => TOp::ByDep(p.get(1)?.to_string()),
            "invalidate_cache" => TOp::InvCache { f: n(1)? },
            "stats_get" => TOp::StatsGet { f: n(1)? },
            "stats_reset" => TOp::StatsReset { f: n(1)? },
            "stats_list" => TOp::StatsList,
            "l0get" => TOp::L0Get(n(1)? as u8),
            "l0put" => TOp::L0Put(n(1)? as u8, n(2)? as u8),
            "l0clear" => TOp::L0Clear,
            _ => return None,
        })
    }
}

#[derive(Clone, Debug, PartialEq)]
pub enum SOp {
    Op(TOp),
    Tick(u64),
}

#[derive(Clone, Debug)]
pub struct Driver {
    pub label: String,
    pub setup: Vec<SOp>,
    pub threads: Vec<Vec<TOp>>,
    /// L0 drivers: configuration of the harness-owned cache
    pub l0: Option<Config>,
    /// stats atomics are scheduling points (hook H1)
    pub atomic_points: bool,
}

impl Driver {
    pub fn to_json(&self) -> J {
        J::obj()
            .set("label", self.label.clone())
            .set(
                "setup",
                J::Arr(self.setup.iter().map(|s| match s { SOp::Op(o) => J::Str(o.render()), SOp::Tick(ns) => J::Str(format!("tick {ns}")) }).collect()),
            )
            .set("threads", J::Arr(self.threads.iter().map(|t| J::Arr(t.iter().map(|o| J::Str(o.render())).collect())).collect()))
            .set("l0", self.l0.as_ref().map(|c| c.to_json()))
            .set("atomic_points", self.atomic_points)
    }
    pub fn from_json(j: &J) -> Option<Driver> {
        let setup = j
            .get("setup")?
            .as_arr()?
            .iter()
            .filter_map(|s| {
                let s = s.as_str()?;
                if let Some(ns) = s.strip_prefix("tick ") {
                    Some(SOp::Tick(ns.parse().ok()?))
                } else {
                    Some(SOp::Op(TOp::parse(s)?))
                }
            })
            .collect();
        let threads = j.get("threads")?.as_arr()?.iter().map(|t| t.as_arr().unwrap().iter().filter_map(|o| TOp::parse(o.as_str()?)).collect()).collect();
        let l0 = match j.get("l0") {
            Some(c @ J::Obj(_)) => Some(Config {
                flavour: Flavour::parse(c.get("flavour")?.as_str()?)?,
                policy: Pol::parse(c.get("policy")?.as_str()?)?,
                limit: c.get("limit").and_then(|x| x.as_i64()).map(|x| x as usize),
                ttl: c.get("ttl").and_then(|x| x.as_i64()).map(|x| x as u64),
                max_memory: c.get("max_memory").and_then(|x| x.as_i64()).map(|x| x as usize),
                fw: c.get("frequency_weight").and_then(|x| x.as_f64()),
                vtype: "String",
            }),
            _ => None,
        };
        Some(Driver { label: j.get("label")?.as_str()?.to_string(), setup, threads, l0, atomic_points: matches!(j.get("atomic_points"), Some(J::Bool(true))) })
    }
    pub fn funcs(&self) -> Vec<&'static FnInfo> {
        let mut ids = BTreeSet::new();
        let mut visit = |o: &TOp| match o {
            TOp::Call { f, .. } | TOp::InvWith { f, .. } | TOp::InvAllWith { f, .. } | TOp::InvCache { f } | TOp::StatsGet { f } | TOp::StatsReset { f } => {
                ids.insert(*f);
            }
            _ => {}
        };
        for s in &self.setup {
            if let SOp::Op(o) = s {
                visit(o);
            }
        }
        for t in &self.threads {
            for o in t {
                visit(o);
            }
        }
        ids.iter().map(|id| func(*id)).collect()
    }
}

pub fn func(id: u32) -> &'static FnInfo {
    FUNCS.iter().find(|f| f.id == id).unwrap_or_else(|| vsched::machinery_failure(&format!("unknown function id {id}")))
}

// ---------------------------------------------------------------------------------------------
// one execution
// ---------------------------------------------------------------------------------------------

#[derive(Clone, Debug)]
pub struct OpEvent {
    pub thread: usize,
    pub idx: usize,
    pub op: TOp,
    pub start: u64,
    pub end: u64,
    pub result: String,
    pub executed: bool,
    /// predicate consultations (cache_if / invalidate_on) this thread made during the operation
    pub consults: Vec<Ev>,
}

static SEQ: AtomicU64 = AtomicU64::new(0);

fn key_matches(mask: u32, key: &str) -> bool {
    match key.parse::<u32>() {
        Ok(k) if k < 32 => mask & (1 << k) != 0,
        _ => mask == u32::MAX,
    }
}

fn perform(op: &TOp, l0: &Option<Config>) -> String {
    match op {
        TOp::Call { f, k } => (func(*f).call)(*k).render(),
        TOp::InvWith { f, mask } => {
            let m = *mask;
            cachelito_core::invalidate_with(func(*f).name, move |k| key_matches(m, k)).to_string()
        }
        TOp::InvAllWith { f, mask } => {
            let m = *mask;
            let target = func(*f).name;
            cachelito_core::invalidate_all_with(move |n, k| n == target && key_matches(m, k)).to_string()
        }
        TOp::ByTag(t) => cachelito_core::invalidate_by_tag(t).to_string(),
        TOp::ByEvent(t) => cachelito_core::invalidate_by_event(t).to_string(),
        TOp::ByDep(t) => cachelito_core::invalidate_by_dependency(t).to_string(),
        TOp::InvCache { f } => cachelito_core::invalidate_cache(func(*f).name).to_string(),
        TOp::StatsGet { f } => format!("{:?}", l1::stats_of(func(*f).name)),
        TOp::StatsReset { f } => cachelito_core::stats_registry::reset(func(*f).name).to_string(),
        TOp::StatsList => {
            let mut v = cachelito_core::stats_registry::list();
            v.sort();
            format!("{}", v.len())
        }
        TOp::L0Get(k) => {
            let s = seqx::make_subject::<String>(l0.as_ref().unwrap());
            match s.get(&format!("k{k}")) {
                Some(v) => format!("Some({v})"),
                None => "None".into(),
            }
        }
        TOp::L0Put(k, v) => {
            use crate::vals::Val;
            let s = seqx::make_subject::<String>(l0.as_ref().unwrap());
            s.put(&format!("k{k}"), String::make(*k, *v, 8));
            "()".into()
        }
        TOp::L0Clear => {
            let s = seqx::make_subject::<String>(l0.as_ref().unwrap());
            s.clear();
            "()".into()
        }
    }
}

pub struct Prepared {
    pub driver: Driver,
    pub funcs: Vec<&'static FnInfo>,
    pub events: Arc<Mutex<Vec<OpEvent>>>,
    /// thread-scope drivers: the execution pattern of each thread's program run alone on a fresh thread
    pub iso: Mutex<Option<Vec<Vec<(String, bool)>>>>,
    /// cold-start driver: nothing was warmed up and nothing is reset (one execution per process)
    pub cold: bool,
}

impl Prepared {
    pub fn new(driver: &Driver) -> Prepared {
        let funcs = driver.funcs();
        // warm-up: first-call registration happens here, sequentially (DESIGN §3.3)
        vsched::clock_freeze(START_NS);
        for f in &funcs {
            if f.flavour != Flavour::Thread {
                if !f.has_meta() {
                    // without a clear callback an aborted execution could leave orphans in the hidden queue
                    vsched::machinery_failure(&format!("thrx driver uses {} which declares no tags/events/dependencies", f.fn_name));
                }
                let _ = (f.call)(0);
            }
        }
        // ... and every operation of the driver once, sequentially: whatever an implementation
        // initialises lazily on first use (of a tag, an event, a statistics query ...) is warm as well
        if driver.l0.is_none() && funcs.iter().all(|f| f.flavour != Flavour::Thread) {
            for op in driver.threads.iter().flatten() {
                let _ = std::panic::catch_unwind(|| perform(op, &None));
            }
        }
        Prepared { driver: driver.clone(), funcs, events: Arc::new(Mutex::new(Vec::new())), iso: Mutex::new(None), cold: false }
    }

    /// no warm-up: the first calls (and with them the registration) happen inside the execution
    pub fn new_cold(driver: &Driver) -> Prepared {
        vsched::clock_freeze(START_NS);
        Prepared { driver: driver.clone(), funcs: driver.funcs(), events: Arc::new(Mutex::new(Vec::new())), iso: Mutex::new(None), cold: true }
    }

    pub fn reset(&self) -> Result<(), String> {
        vsched::clock_freeze(START_NS);
        for f in &self.funcs {
            if f.flavour != Flavour::Thread && !self.cold {
                l1::reset_cache(f)?;
            }
        }
        if let Some(c) = &self.driver.l0 {
            seqx::make_subject::<String>(c).reset();
        }
        l1::reset_scripts();
        self.events.lock().unwrap().clear();
        SEQ.store(0, Ordering::SeqCst);
        Ok(())
    }

    /// Differential oracle for thread scope (C14): run every thread's program alone, each on a
    /// fresh OS thread of its own, and remember (result, executed) per operation.
    pub fn compute_isolated_patterns(&self) {
        if !self.funcs.iter().any(|f| f.flavour == Flavour::Thread) {
            return;
        }
        let mut pats = Vec::new();
        for t in 0..self.driver.threads.len() {
            let mut all = self.make_threads();
            let only = all.remove(t);
            drop(all);
            let out = vsched::run(&[], &[], vec![only], RwPolicy::ReadersBarge, 20_000);
            if out.deadlock.is_some() || !out.panics.is_empty() {
                pats.push(Vec::new());
                continue;
            }
            // the single model thread is thread 0 of that run
            let ev = self.events.lock().unwrap().clone();
            pats.push(ev.iter().map(|e| (e.result.clone(), e.executed)).collect());
        }
        *self.iso.lock().unwrap() = Some(pats);
    }

    /// reset, run the sequential setup, build the thread bodies
    pub fn make_threads(&self) -> Vec<Thunk> {
        if let Err(e) = self.reset() {
            vsched::machinery_failure(&format!("reset failed: {e}"));
        }
        for s in &self.driver.setup {
            match s {
                SOp::Op(o) => {
                    perform(o, &self.driver.l0);
                }
                SOp::Tick(ns) => vsched::clock_advance(*ns),
            }
        }
        if std::env::var("VSCHED_DEBUG").is_ok() {
            for f in &self.funcs {
                eprintln!("after setup: {} keys {:?} clock {:?} log {:?}", f.fn_name, l1::list_keys(f.name), vsched::clock_now(), l1::LOG.lock().unwrap());
            }
        }
        l1::log_take();
        for f in &self.funcs {
            if f.flavour != Flavour::Thread && !self.cold {
                cachelito_core::stats_registry::reset(f.name);
            }
        }
        if let Some(c) = &self.driver.l0 {
            // L0 stats are not part of any threaded oracle
            let _ = c;
        }
        vsched::set_atomic_points(self.driver.atomic_points);
        // "[held]" drivers: a thread may also be descheduled while it merely holds a lock (visible to try-lock style code)
        vsched::set_held_points(self.driver.label.contains("[held]"));
        let mut out: Vec<Thunk> = Vec::new();
        for (t, prog) in self.driver.threads.iter().enumerate() {
            let prog = prog.clone();
            let events = self.events.clone();
            let l0 = self.driver.l0.clone();
            out.push(Box::new(move || {
                for (idx, op) in prog.iter().enumerate() {
                    vsched::yield_point("op");
                    let start = SEQ.fetch_add(1, Ordering::SeqCst);
                    let log_before = l1::log_len();
                    let result = perform(op, &l0);
                    let me = vsched::current_thread();
                    let (executed, consults) = {
                        let g = l1::LOG.lock().unwrap();
                        let mine = &g[log_before.min(g.len())..];
                        (
                            mine.iter().any(|e| matches!(e, Ev::Exec { thread, .. } if *thread == me)),
                            mine.iter().filter(|e| matches!(e, Ev::CacheIf { thread, .. } | Ev::InvalOn { thread, .. } if *thread == me)).cloned().collect::<Vec<Ev>>(),
                        )
                    };
                    let end = SEQ.fetch_add(1, Ordering::SeqCst);
                    events.lock().unwrap().push(OpEvent { thread: t, idx, op: op.clone(), start, end, result, executed, consults });
                }
            }));
        }
        out
    }
}

// ---------------------------------------------------------------------------------------------
// oracles at quiescence
// ---------------------------------------------------------------------------------------------

#[derive(Clone, Debug)]
pub struct TFinding {
    pub property: &'static str,
    pub monitor: String,
    pub detail: String,
}

fn footprint_of(f: &FnInfo, key: &str) -> usize {
    let k: u32 = key.parse().unwrap_or(0);
    std::mem::size_of::<String>() + l1::value(f.id, k, 0).len()
}

pub struct Quiescent {
    pub findings: Vec<TFinding>,
    pub observation: String,
}

pub fn check_execution(p: &Prepared, out: &Outcome) -> Quiescent {
    vsched::set_atomic_points(false);
    vsched::set_held_points(false);
    let mut fs: Vec<TFinding> = Vec::new();
    let d = &p.driver;
    let events = p.events.lock().unwrap().clone();
    let flav = p.funcs.first().map(|f| f.flavour.name()).or(d.l0.as_ref().map(|c| c.flavour.name())).unwrap_or("-");
    let pol = p.funcs.first().map(|f| f.pol().name()).or(d.l0.as_ref().map(|c| c.policy.name())).unwrap_or("-");
    // ---- C17: deadlock / thread did not return
    if let Some(dl) = &out.deadlock {
        let mut kinds: Vec<&str> = Vec::new();
        for (t, _, _) in &dl.threads {
            let done = events.iter().filter(|e| e.thread == *t).count();
            if let Some(op) = d.threads[*t].get(done) {
                kinds.push(op.kind());
            }
        }
        kinds.sort();
        fs.push(TFinding {
            property: "C17",
            monitor: format!("{flav}/deadlock/{}", kinds.join("+")),
            detail: format!("deadlock: {:?}", dl.threads),
        });
    }
    for (t, msg) in &out.panics {
        fs.push(TFinding { property: "C17", monitor: format!("{flav}/panic"), detail: format!("thread {t} panicked: {msg}") });
        // "no cache operation panics" has no exception for operations that overlap with others
        let op = events.iter().filter(|e| e.thread == *t).count();
        let what = d.threads.get(*t).and_then(|p| p.get(op)).map(|o| o.render()).unwrap_or_default();
        fs.push(TFinding { property: "C16", monitor: format!("{flav}/panic-under-concurrency"), detail: format!("thread {t} panicked in `{what}`: {msg}") });
    }
    let clean = out.deadlock.is_none() && out.panics.is_empty();
    let mut obs = String::new();
    for e in &events {
        obs.push_str(&format!("T{}.{}={}{};", e.thread, e.idx, e.result, if e.executed { "!" } else { "" }));
    }
    if !clean {
        return Quiescent { findings: fs, observation: obs };
    }
    if d.l0.is_some() {
        let saved = d.l0.as_ref().map(|c| (seqx::make_subject::<String>(c).save(), vsched::clock_now()));
        l0_sequential_equivalent(d, &mut fs, flav, pol);
        if let (Some(c), Some((sv, now))) = (&d.l0, saved) {
            seqx::make_subject::<String>(c).restore(&sv);
            if let Some(n) = now {
                vsched::clock_freeze(n);
            }
        }
    }
    let evicting = d.threads.iter().flatten().chain(d.setup.iter().filter_map(|s| if let SOp::Op(o) = s { Some(o) } else { None })).any(|o| !matches!(o, TOp::Call { .. } | TOp::StatsGet { .. } | TOp::StatsList));
    // ---- C18: values inside threads
    for e in &events {
        if let TOp::Call { f, k } = &e.op {
            let fi = func(*f);
            if !fi.versioned && !fi.is_result {
                let want = l1::value(*f, *k, 0);
                if e.result != want {
                    fs.push(TFinding { property: "C18", monitor: format!("{flav}/{pol}/wrong-value"), detail: format!("thread {} call {}({k}) returned {} instead of {want}", e.thread, fi.fn_name, e.result) });
                }
            }
        }
    }
    // ---- C03 (concurrent clause): nothing executes after a storing call has returned
    for f in &p.funcs {
        // (for a `Result` function a storing call is one that returned `Ok`)
        let plain = f.limit.is_none() && f.ttl.is_none() && f.mem.is_none() && !f.has_cache_if && !f.has_inval_on && !evicting;
        if !plain || f.flavour == Flavour::Thread {
            continue;
        }
        let setup_keys: BTreeSet<u32> = d.setup.iter().filter_map(|s| if let SOp::Op(TOp::Call { f: ff, k }) = s { if *ff == f.id { Some(*k) } else { None } } else { None }).collect();
        for e in events.iter().filter(|e| e.executed) {
            if let TOp::Call { f: ff, k } = &e.op {
                if *ff != f.id {
                    continue;
                }
                let earlier = setup_keys.contains(k)
                    || events.iter().any(|o| matches!(&o.op, TOp::Call { f: f2, k: k2 } if f2 == ff && k2 == k) && o.executed && o.end < e.start && (!f.is_result || o.result.starts_with("Ok(")));
                if earlier {
                    fs.push(TFinding { property: "C03", monitor: format!("{flav}/recomputed-after-store"), detail: format!("thread {} executed {}({k}) although a call that stored it had already returned", e.thread, f.fn_name) });
                }
            }
        }
    }
    // ---- C09 (under concurrency): an Err is returned only by the call whose body produced it and never
    // touches the cache; an Ok that some call stored stays stored whatever Err arrives later
    for f in &p.funcs {
        if !f.is_result || f.flavour == Flavour::Thread || f.limit.is_some() || f.ttl.is_some() || f.mem.is_some() || f.has_cache_if || f.has_inval_on || evicting {
            continue;
        }
        let listed: BTreeSet<String> = l1::list_keys(f.name).unwrap_or_default().into_iter().collect();
        let mut keys: BTreeSet<u32> = BTreeSet::new();
        let calls: Vec<&OpEvent> = events.iter().filter(|e| matches!(&e.op, TOp::Call { f: ff, .. } if *ff == f.id)).collect();
        for e in &calls {
            if let TOp::Call { k, .. } = &e.op {
                keys.insert(*k);
                if e.result.starts_with("Err(") && !e.executed {
                    fs.push(TFinding { property: "C09", monitor: format!("{flav}/err-served-from-cache-under-concurrency"), detail: format!("thread {} call {}({k}) returned {} without running the body", e.thread, f.fn_name, e.result) });
                }
            }
        }
        let setup_keys: BTreeSet<u32> = d.setup.iter().filter_map(|s| if let SOp::Op(TOp::Call { f: ff, k }) = s { if *ff == f.id { Some(*k) } else { None } } else { None }).collect();
        for k in keys {
            let of_key: Vec<&&OpEvent> = calls.iter().filter(|e| matches!(&e.op, TOp::Call { k: kk, .. } if *kk == k)).collect();
            let some_ok = setup_keys.contains(&k) || of_key.iter().any(|e| e.executed && e.result.starts_with("Ok("));
            let is_listed = listed.contains(&k.to_string());
            if some_ok && !is_listed {
                fs.push(TFinding { property: "C09", monitor: format!("{flav}/stored-ok-lost-under-concurrency"), detail: format!("{}({k}): a call produced Ok and stored it, every caller has returned, and the cache holds {:?}", f.fn_name, listed) });
            }
            if !some_ok && is_listed {
                fs.push(TFinding { property: "C09", monitor: format!("{flav}/err-stored-under-concurrency"), detail: format!("{}({k}): every execution returned Err and the key is cached", f.fn_name) });
            }
            // once a call that produced Ok has returned, later calls are served
            for e in of_key.iter().filter(|e| e.executed) {
                let earlier_ok = setup_keys.contains(&k) || of_key.iter().any(|o| o.executed && o.result.starts_with("Ok(") && o.end < e.start);
                if earlier_ok {
                    fs.push(TFinding { property: "C09", monitor: format!("{flav}/ok-not-reused-under-concurrency"), detail: format!("thread {} executed {}({k}) although a call that returned Ok had already completed", e.thread, f.fn_name) });
                }
            }
        }
    }
    // ---- C10 (under concurrency): one consultation per execution, with that call's key and result; the key is
    // cached at quiescence iff some execution was accepted; after an accepted call returned nobody executes
    for f in &p.funcs {
        if !f.has_cache_if || f.has_inval_on || f.is_result || f.flavour == Flavour::Thread || f.limit.is_some() || f.ttl.is_some() || f.mem.is_some() || evicting {
            continue;
        }
        let listed: BTreeSet<String> = l1::list_keys(f.name).unwrap_or_default().into_iter().collect();
        let calls: Vec<&OpEvent> = events.iter().filter(|e| matches!(&e.op, TOp::Call { f: ff, .. } if *ff == f.id)).collect();
        let setup_keys: BTreeSet<u32> = d.setup.iter().filter_map(|s| if let SOp::Op(TOp::Call { f: ff, k }) = s { if *ff == f.id { Some(*k) } else { None } } else { None }).collect();
        let accepted = |e: &OpEvent| e.consults.iter().any(|c| matches!(c, Ev::CacheIf { verdict: true, .. }));
        let mut keys: BTreeSet<u32> = BTreeSet::new();
        for e in &calls {
            if let TOp::Call { k, .. } = &e.op {
                keys.insert(*k);
                let ci: Vec<&Ev> = e.consults.iter().filter(|c| matches!(c, Ev::CacheIf { .. })).collect();
                if ci.len() != usize::from(e.executed) {
                    fs.push(TFinding { property: "C10", monitor: format!("{flav}/consultation-count-under-concurrency"), detail: format!("thread {} call {}({k}): cache_if consulted {} times, body ran: {}", e.thread, f.fn_name, ci.len(), e.executed) });
                }
                if let Some(Ev::CacheIf { key, val, .. }) = ci.first() {
                    if *key != k.to_string() || *val != format!("{:?}", e.result) {
                        fs.push(TFinding { property: "C10", monitor: format!("{flav}/consulted-with-wrong-arguments-under-concurrency"), detail: format!("thread {} call {}({k}) = {}: cache_if saw ({key}, {val})", e.thread, f.fn_name, e.result) });
                    }
                }
            }
        }
        for k in keys {
            let of_key: Vec<&&OpEvent> = calls.iter().filter(|e| matches!(&e.op, TOp::Call { k: kk, .. } if *kk == k)).collect();
            let some_accepted = setup_keys.contains(&k) || of_key.iter().any(|e| accepted(e));
            let is_listed = listed.contains(&k.to_string());
            if some_accepted != is_listed {
                let mon = if some_accepted { "accepted-result-lost-under-concurrency" } else { "rejected-result-stored-under-concurrency" };
                fs.push(TFinding { property: "C10", monitor: format!("{flav}/{mon}"), detail: format!("{}({k}): some execution accepted: {some_accepted}; cached once every caller has returned: {is_listed}", f.fn_name) });
            }
            for e in of_key.iter().filter(|e| e.executed) {
                if setup_keys.contains(&k) || of_key.iter().any(|o| accepted(o) && o.end < e.start) {
                    fs.push(TFinding { property: "C10", monitor: format!("{flav}/accepted-result-not-reused-under-concurrency"), detail: format!("thread {} executed {}({k}) although a call whose result was accepted had already returned", e.thread, f.fn_name) });
                }
            }
        }
    }
    // ---- C11 (under concurrency): every hit is shown to invalidate_on; "stale" means the body runs, "valid" means
    // exactly the value that was shown is returned
    for f in &p.funcs {
        if !f.has_inval_on || f.has_cache_if || f.is_result || f.flavour == Flavour::Thread || f.limit.map_or(false, |n| n < 2) || f.ttl.is_some() || f.mem.is_some() || evicting {
            continue;
        }
        let calls: Vec<&OpEvent> = events.iter().filter(|e| matches!(&e.op, TOp::Call { f: ff, .. } if *ff == f.id)).collect();
        let setup_keys: BTreeSet<u32> = d.setup.iter().filter_map(|s| if let SOp::Op(TOp::Call { f: ff, k }) = s { if *ff == f.id { Some(*k) } else { None } } else { None }).collect();
        for e in &calls {
            if let TOp::Call { k, .. } = &e.op {
                let io: Vec<&Ev> = e.consults.iter().filter(|c| matches!(c, Ev::InvalOn { .. })).collect();
                if io.len() > 1 {
                    fs.push(TFinding { property: "C11", monitor: format!("{flav}/consulted-twice-under-concurrency"), detail: format!("thread {} call {}({k}): invalidate_on consulted {} times", e.thread, f.fn_name, io.len()) });
                }
                match io.first() {
                    Some(Ev::InvalOn { key, val, verdict, .. }) => {
                        if *key != k.to_string() {
                            fs.push(TFinding { property: "C11", monitor: format!("{flav}/consulted-with-wrong-key-under-concurrency"), detail: format!("thread {} call {}({k}): invalidate_on saw key {key}", e.thread, f.fn_name) });
                        }
                        if *verdict && !e.executed {
                            fs.push(TFinding { property: "C11", monitor: format!("{flav}/stale-entry-served-under-concurrency"), detail: format!("thread {} call {}({k}): the check called {val} stale and the body did not run (returned {})", e.thread, f.fn_name, e.result) });
                        }
                        if !*verdict && (e.executed || *val != format!("{:?}", e.result)) {
                            fs.push(TFinding { property: "C11", monitor: format!("{flav}/valid-entry-not-served-under-concurrency"), detail: format!("thread {} call {}({k}): the check called {val} valid; body ran: {}, returned {}", e.thread, f.fn_name, e.executed, e.result) });
                        }
                    }
                    _ => {
                        if !e.executed {
                            fs.push(TFinding { property: "C11", monitor: format!("{flav}/served-without-consulting-under-concurrency"), detail: format!("thread {} call {}({k}) returned {} from the cache without showing it to invalidate_on", e.thread, f.fn_name, e.result) });
                        } else if setup_keys.contains(k) || calls.iter().any(|o| matches!(&o.op, TOp::Call { k: kk, .. } if kk == k) && o.executed && o.end < e.start) {
                            fs.push(TFinding { property: "C11", monitor: format!("{flav}/stored-entry-ignored-under-concurrency"), detail: format!("thread {} executed {}({k}) without consulting invalidate_on although an entry had been stored before the call started", e.thread, f.fn_name) });
                        }
                    }
                }
            }
        }
        // a value that a refresh replaced must not come back: when the setup stored version 1 and some thread's call ran the
        // body (and stored a later version), what the cache holds at the end is not version 1 again
        let refreshed: BTreeSet<u32> = calls.iter().filter(|e| e.executed).filter_map(|e| if let TOp::Call { k, .. } = &e.op { Some(*k) } else { None }).collect();
        for k in refreshed.iter().filter(|k| setup_keys.contains(k)) {
            l1::log_take();
            let r = (f.call)(*k);
            let evs = l1::log_take();
            let executed = evs.iter().any(|e| matches!(e, Ev::Exec { .. }));
            if !executed && r.render() == l1::value(f.id, *k, 1) {
                let det = format!("{}({k}): the setup stored {}, a thread's call ran the body again and stored a newer value, every caller has returned — and the cache serves {} again", f.fn_name, l1::value(f.id, *k, 1), r.render());
                fs.push(TFinding { property: "C11", monitor: format!("{flav}/superseded-value-came-back"), detail: det.clone() });
                fs.push(TFinding { property: "C01", monitor: format!("{flav}/superseded-value-came-back"), detail: det });
            }
        }
        // afterwards the cache still works: a call that finds its entry valid is served
        for k in calls.iter().filter_map(|e| if let TOp::Call { k, .. } = &e.op { Some(*k) } else { None }).collect::<BTreeSet<u32>>() {
            l1::log_take();
            let r = (f.call)(k);
            let evs = l1::log_take();
            let executed = evs.iter().any(|e| matches!(e, Ev::Exec { .. }));
            let shown = evs.iter().find_map(|e| if let Ev::InvalOn { val, .. } = e { Some(val.clone()) } else { None });
            if executed || shown.as_deref() != Some(&format!("{:?}", r.render())) {
                fs.push(TFinding { property: "C11", monitor: format!("{flav}/refreshed-entry-not-served-at-quiescence"), detail: format!("probe {}({k}) after every caller returned: body ran: {executed}, shown to invalidate_on: {shown:?}, returned {}", f.fn_name, r.render()) });
            }
        }
    }
    // ---- C14: thread scope behaves as if each thread ran alone; global scope shares
    if let Some(iso) = p.iso.lock().unwrap().as_ref() {
        for (t, want) in iso.iter().enumerate() {
            let got: Vec<(String, bool)> = events.iter().filter(|e| e.thread == t).map(|e| (e.result.clone(), e.executed)).collect();
            if got != *want {
                fs.push(TFinding { property: "C14", monitor: format!("thread/{pol}/thread-scope-not-isolated"), detail: format!("thread {t} observed {:?} (result, body ran) in this interleaving but {:?} when its program runs alone", got, want) });
            }
        }
    }
    for f in &p.funcs {
        if f.flavour == Flavour::Thread || f.limit.is_some() || f.ttl.is_some() || f.mem.is_some() || evicting {
            continue;
        }
        for e in events.iter().filter(|e| e.executed) {
            if let TOp::Call { f: ff, k } = &e.op {
                let in_setup = d.setup.iter().any(|s| matches!(s, SOp::Op(TOp::Call { f: f2, k: k2 }) if f2 == ff && k2 == k));
                if *ff == f.id && (in_setup || events.iter().any(|o| matches!(&o.op, TOp::Call { f: f2, k: k2 } if f2 == ff && k2 == k) && o.executed && o.end < e.start && o.thread != e.thread)) {
                    fs.push(TFinding { property: "C14", monitor: format!("{flav}/global-entry-not-shared"), detail: format!("thread {} recomputed {}({k}) although another thread had stored it before the call started", e.thread, f.fn_name) });
                }
            }
        }
    }
    // ---- C15 (concurrent clause): exact counters
    let resets = d.threads.iter().flatten().any(|o| matches!(o, TOp::StatsReset { .. }));
    if !resets {
        for f in &p.funcs {
            if f.flavour == Flavour::Thread || f.has_inval_on {
                continue;
            }
            if p.cold && d.setup.iter().any(|s| matches!(s, SOp::Op(TOp::Call { f: ff, .. }) if *ff == f.id)) {
                // cold start: the statistics of a warm sibling still contain its setup calls
                continue;
            }
            let calls: Vec<&OpEvent> = events.iter().filter(|e| matches!(&e.op, TOp::Call { f: ff, .. } if *ff == f.id)).collect();
            if let Some((h, m)) = l1::stats_of(f.name) {
                let n = calls.len() as u64;
                let misses = calls.iter().filter(|e| e.executed).count() as u64;
                if h + m != n || m != misses {
                    fs.push(TFinding { property: "C15", monitor: format!("{flav}/stats-mismatch"), detail: format!("{}: {n} calls of which {misses} executed the body, statistics say hits={h} misses={m}", f.fn_name) });
                }
            }
        }
    }
    // ---- C12 (under concurrency): every group request reports exactly the matching used caches; with no
    // concurrent store the matching caches are empty afterwards
    let stores_in_threads = d.threads.iter().flatten().any(|o| matches!(o, TOp::Call { .. }));
    for e in &events {
        let want: Option<usize> = match &e.op {
            TOp::ByTag(x) => Some(p.funcs.iter().filter(|f| f.flavour != Flavour::Thread && f.tags.contains(&x.as_str())).count()),
            TOp::ByEvent(x) => Some(p.funcs.iter().filter(|f| f.flavour != Flavour::Thread && f.events.contains(&x.as_str())).count()),
            TOp::ByDep(x) => Some(p.funcs.iter().filter(|f| f.flavour != Flavour::Thread && f.deps.contains(&x.as_str())).count()),
            TOp::InvCache { f } => Some(usize::from(func(*f).has_meta())),
            _ => None,
        };
        if let Some(w) = want {
            let got = match e.result.as_str() {
                "true" => 1,
                "false" => 0,
                x => x.parse::<usize>().unwrap_or(usize::MAX),
            };
            // cold start: a cache counts as "used" once a call of it has returned before the request started;
            // one whose first call overlaps the request may or may not be reached yet
            let at_least = if p.cold {
                let used_before = |f: &FnInfo| {
                    events.iter().any(|c| matches!(&c.op, TOp::Call { f: ff, .. } if *ff == f.id) && c.end < e.start) || d.setup.iter().any(|s| matches!(s, SOp::Op(TOp::Call { f: ff, .. }) if *ff == f.id))
                };
                match &e.op {
                    TOp::ByTag(x) => p.funcs.iter().filter(|f| f.flavour != Flavour::Thread && f.tags.contains(&x.as_str()) && used_before(f)).count(),
                    TOp::ByEvent(x) => p.funcs.iter().filter(|f| f.flavour != Flavour::Thread && f.events.contains(&x.as_str()) && used_before(f)).count(),
                    TOp::ByDep(x) => p.funcs.iter().filter(|f| f.flavour != Flavour::Thread && f.deps.contains(&x.as_str()) && used_before(f)).count(),
                    TOp::InvCache { f } => usize::from(func(*f).has_meta() && used_before(func(*f))),
                    _ => 0,
                }
            } else {
                w
            };
            if got > w || got < at_least {
                fs.push(TFinding { property: "C12", monitor: format!("{flav}/wrong-count-under-concurrency/{}", e.op.kind()), detail: format!("thread {} {} returned {}, {w} used caches match ({at_least} of them used before the request started)", e.thread, e.op.render(), e.result) });
            }
            if w > 0 && stores_in_threads {
                // stores race with the request: what a matching cache held *before the threads started* and nobody
                // called again can only be there afterwards if the request skipped that cache
                for f in p.funcs.iter().filter(|f| f.flavour != Flavour::Thread) {
                    let matches = match &e.op {
                        TOp::ByTag(x) => f.tags.contains(&x.as_str()),
                        TOp::ByEvent(x) => f.events.contains(&x.as_str()),
                        TOp::ByDep(x) => f.deps.contains(&x.as_str()),
                        TOp::InvCache { f: ff } => *ff == f.id,
                        _ => false,
                    };
                    if !matches {
                        continue;
                    }
                    let before: BTreeSet<u32> = d.setup.iter().filter_map(|s| if let SOp::Op(TOp::Call { f: ff, k }) = s { if *ff == f.id { Some(*k) } else { None } } else { None }).collect();
                    let called: BTreeSet<u32> = d.threads.iter().flatten().filter_map(|o| if let TOp::Call { f: ff, k } = o { if *ff == f.id { Some(*k) } else { None } } else { None }).collect();
                    let left = l1::list_keys(f.name).unwrap_or_default();
                    let survivors: Vec<&String> = left.iter().filter(|k| k.parse::<u32>().map_or(false, |kk| before.contains(&kk) && !called.contains(&kk))).collect();
                    if !survivors.is_empty() {
                        fs.push(TFinding { property: "C12", monitor: format!("{flav}/entry-from-before-the-request-survived/{}", e.op.kind()), detail: format!("thread {} {} returned {} although {} still holds {:?}, stored before the threads started and not called since", e.thread, e.op.render(), e.result, f.fn_name, survivors) });
                    }
                }
            }
            if w > 0 && !stores_in_threads {
                for f in p.funcs.iter().filter(|f| f.flavour != Flavour::Thread) {
                    let matches = match &e.op {
                        TOp::ByTag(x) => f.tags.contains(&x.as_str()),
                        TOp::ByEvent(x) => f.events.contains(&x.as_str()),
                        TOp::ByDep(x) => f.deps.contains(&x.as_str()),
                        TOp::InvCache { f: ff } => *ff == f.id,
                        _ => false,
                    };
                    let left = l1::list_keys(f.name).unwrap_or_default();
                    if matches && !left.is_empty() {
                        fs.push(TFinding { property: "C12", monitor: format!("{flav}/matching-cache-not-emptied-under-concurrency/{}", e.op.kind()), detail: format!("{} still holds {:?} after every thread returned", f.fn_name, left) });
                    }
                }
            }
        }
    }
    // ---- C18: structure at quiescence, then a sequential probe
    for f in &p.funcs {
        if f.flavour == Flavour::Thread {
            continue;
        }
        let keys = l1::list_keys(f.name).unwrap_or_default();
        obs.push_str(&format!("|{}:{:?}", f.fn_name, keys));
        if let Some(n) = f.limit {
            if keys.len() > n {
                fs.push(TFinding { property: "C18", monitor: format!("{flav}/{pol}/over-limit-at-quiescence"), detail: format!("{} holds {:?} with limit {n}", f.fn_name, keys) });
                fs.push(TFinding { property: "C04", monitor: format!("{flav}/{pol}/over-limit-after-concurrent-stores"), detail: format!("every caller has returned and {} holds {:?} with limit {n}", f.fn_name, keys) });
            }
        }
        if let Some(m) = f.mem {
            let tot: usize = keys.iter().map(|k| footprint_of(f, k)).sum();
            if tot > m {
                fs.push(TFinding { property: "C18", monitor: format!("{flav}/{pol}/over-memory-at-quiescence"), detail: format!("{} holds {:?} = {tot} bytes with max_memory {m}", f.fn_name, keys) });
                fs.push(TFinding { property: "C05", monitor: format!("{flav}/{pol}/over-memory-after-concurrent-stores"), detail: format!("every caller has returned and {} holds {:?} = {tot} bytes with max_memory {m}", f.fn_name, keys) });
            }
        }
        if f.is_result || f.has_cache_if || f.has_inval_on {
            continue;
        }
        // recency probe (LRU with an entry limit): use every stored key once, in a known order; store the keys the
        // threads touched that are absent now; then overflow. From the first step on the recency order is fixed
        // by this sequential continuation alone, so every victim is known exactly — whatever the threads did. A
        // queue slot left behind by a race (for an absent key, or a second slot for a stored one) shows as a victim
        // that was used more recently than another entry.
        if let (Pol::Lru, Some(nl), None, None) = (f.pol(), f.limit, f.mem, f.ttl) {
            let mut ghost: Vec<u32> = Vec::new(); // least recently used first
            let mut listed: Vec<u32> = keys.iter().filter_map(|k| k.parse().ok()).collect();
            listed.sort();
            let mut touched: BTreeSet<u32> = BTreeSet::new();
            for o in d.threads.iter().flatten().chain(d.setup.iter().filter_map(|s| if let SOp::Op(o) = s { Some(o) } else { None })) {
                if let TOp::Call { f: ff, k } = o {
                    if *ff == f.id {
                        touched.insert(*k);
                    }
                }
            }
            let absent: Vec<u32> = touched.iter().copied().filter(|k| !listed.contains(k)).collect();
            let mut steps: Vec<u32> = listed.clone();
            steps.extend(absent.iter().copied());
            steps.extend((0..=nl as u32).map(|i| 40 + i));
            let mut ok = true;
            let warm = listed.len();
            for (si, k) in steps.into_iter().enumerate() {
                let _ = (f.call)(k);
                ghost.retain(|x| *x != k);
                ghost.push(k);
                while ghost.len() > nl {
                    ghost.remove(0);
                }
                let mut now: Vec<u32> = l1::list_keys(f.name).unwrap_or_default().iter().filter_map(|x| x.parse().ok()).collect();
                now.sort();
                let mut want = ghost.clone();
                want.sort();
                // (while the stored keys are still being used one by one nothing is evicted and the order is not yet known)
                if si + 1 >= warm && now != want && ok {
                    ok = false;
                    let det = format!("{}: after the threads returned the cache held {:?}; sequential continuation (use every stored key, store {:?}, then fresh keys): after call {k} it holds {:?}, least-recently-used order says {:?}", f.fn_name, listed, absent, now, want);
                    fs.push(TFinding { property: "C18", monitor: format!("{flav}/{pol}/recency-probe-wrong-victim"), detail: det.clone() });
                    fs.push(TFinding { property: "C07", monitor: format!("{flav}/{pol}/wrong-victim-after-concurrent-operations"), detail: det.clone() });
                    if evicting {
                        fs.push(TFinding { property: "C13", monitor: format!("{flav}/{pol}/eviction-order-wrong-after-concurrent-invalidation"), detail: det });
                    }
                }
            }
            // leave the cache as the remaining probes expect it: nothing from before the probe
        }
        // probe: 2N fresh stores must flush every pre-probe entry (FIFO/LRU), bounds hold after each
        let cap = f.limit.or(f.mem.map(|m| m / footprint_of(f, "20").max(1)));
        if let Some(n) = cap {
            let pre: BTreeSet<String> = keys.iter().cloned().collect();
            for i in 0..(2 * n as u32) {
                let k = 20 + i;
                let before = l1::list_keys(f.name).unwrap_or_default();
                let r = (f.call)(k);
                if r != Ret::Plain(l1::value(f.id, k, 0)) {
                    fs.push(TFinding { property: "C18", monitor: format!("{flav}/{pol}/probe-wrong-value"), detail: format!("probe call {}({k}) returned {}", f.fn_name, r.render()) });
                }
                let now = l1::list_keys(f.name).unwrap_or_default();
                // a store into a cache that is not full removes nothing and is itself kept
                if let (Some(nl), None) = (f.limit, f.mem) {
                    if before.len() < nl && (!now.contains(&k.to_string()) || before.iter().any(|b| !now.contains(b))) {
                        fs.push(TFinding { property: "C18", monitor: format!("{flav}/{pol}/probe-store-into-non-full-cache-lost"), detail: format!("{} held {:?} (limit {nl}); after the probe call {}({k}) it holds {:?}", f.fn_name, before, f.fn_name, now) });
                        fs.push(TFinding { property: "C04", monitor: format!("{flav}/{pol}/store-into-non-full-cache-removed-entries"), detail: format!("after the threads returned {} held {:?} (limit {nl}); the next call {}({k}) left {:?}", f.fn_name, before, f.fn_name, now) });
                    }
                }
                if let Some(nl) = f.limit {
                    if now.len() > nl {
                        fs.push(TFinding { property: "C18", monitor: format!("{flav}/{pol}/probe-over-limit"), detail: format!("after probe store {k}: {} holds {:?} with limit {nl}", f.fn_name, now) });
                        break;
                    }
                }
            }
            let after: BTreeSet<String> = l1::list_keys(f.name).unwrap_or_default().into_iter().collect();
            if matches!(f.pol(), Pol::Fifo | Pol::Lru) {
                let stuck: Vec<&String> = after.intersection(&pre).collect();
                if !stuck.is_empty() {
                    fs.push(TFinding { property: "C18", monitor: format!("{flav}/{pol}/unevictable-entry"), detail: format!("{}: {:?} survived {} fresh stores (capacity {n})", f.fn_name, stuck, 2 * n) });
                }
            }
        }
        // every entry can still expire
        if let Some(t) = f.ttl {
            let before = l1::list_keys(f.name).unwrap_or_default();
            vsched::clock_advance((t + 1) * NS);
            l1::log_take();
            for k in &before {
                let kk: u32 = k.parse().unwrap_or(0);
                let _ = (f.call)(kk);
            }
            let execs = l1::log_take().iter().filter(|e| matches!(e, Ev::Exec { .. })).count();
            if execs != before.len() {
                fs.push(TFinding { property: "C18", monitor: format!("{flav}/{pol}/entry-does-not-expire"), detail: format!("{}: {} of {} entries were still served after ttl", f.fn_name, before.len() - execs, before.len()) });
            }
        }
        // every entry can still be invalidated
        cachelito_core::invalidate_with(f.name, |_| true);
        let left = l1::list_keys(f.name).unwrap_or_default();
        if !left.is_empty() {
            fs.push(TFinding { property: "C18", monitor: format!("{flav}/{pol}/entry-not-invalidatable"), detail: format!("{}: {:?} left after invalidating everything", f.fn_name, left) });
        }
    }
    // ---- C12, cold start: whatever raced during the first calls, every cache that has been used is registered
    // under all of its tags / events / dependencies once its first call has returned
    if p.cold {
        let used: Vec<&&'static FnInfo> = p
            .funcs
            .iter()
            .filter(|f| f.flavour != Flavour::Thread && f.has_meta() && (events.iter().any(|e| matches!(&e.op, TOp::Call { f: ff, .. } if *ff == f.id)) || d.setup.iter().any(|s| matches!(s, SOp::Op(TOp::Call { f: ff, .. }) if *ff == f.id))))
            .collect();
        let mut asked: BTreeSet<(&'static str, &'static str)> = BTreeSet::new();
        for f in &used {
            for t in f.tags {
                asked.insert(("tag", *t));
            }
            for t in f.events {
                asked.insert(("event", *t));
            }
            for t in f.deps {
                asked.insert(("dependency", *t));
            }
        }
        for (kind, name) in asked {
            let declares = |f: &FnInfo| match kind {
                "tag" => f.tags.contains(&name),
                "event" => f.events.contains(&name),
                _ => f.deps.contains(&name),
            };
            for f in used.iter().filter(|f| declares(f)) {
                let _ = (f.call)(1);
            }
            let n = match kind {
                "tag" => cachelito_core::invalidate_by_tag(name),
                "event" => cachelito_core::invalidate_by_event(name),
                _ => cachelito_core::invalidate_by_dependency(name),
            };
            let want = used.iter().filter(|f| declares(f)).count();
            if n != want {
                fs.push(TFinding { property: "C12", monitor: format!("{flav}/used-cache-not-registered-under-its-{kind}"), detail: format!("after every first call has returned, invalidate_by_{kind}({name:?}) returned {n}; {want} used caches declare it ({:?})", used.iter().filter(|f| declares(f)).map(|f| f.fn_name).collect::<Vec<_>>()) });
            }
            for f in used.iter().filter(|f| declares(f)) {
                let left = l1::list_keys(f.name).unwrap_or_default();
                if !left.is_empty() {
                    fs.push(TFinding { property: "C12", monitor: format!("{flav}/used-cache-not-emptied-by-its-{kind}"), detail: format!("after every first call has returned, invalidate_by_{kind}({name:?}) left {:?} in {}", left, f.fn_name) });
                }
            }
        }
    }
    // ---- L0: store vs queue
    if let Some(c) = &d.l0 {
        let s = seqx::make_subject::<String>(c).snap();
        obs.push_str(&format!("|store={:?} queue={:?}", s.store.keys().collect::<Vec<_>>(), s.order));
        let q: BTreeSet<&String> = s.order.iter().collect();
        if let Some(m) = c.max_memory {
            let tot: usize = s.store.values().map(|e| e.footprint).sum();
            if tot > m {
                fs.push(TFinding { property: "C18", monitor: format!("{flav}/{pol}/over-memory-at-quiescence"), detail: format!("store holds {tot} bytes with max_memory {m}") });
                fs.push(TFinding { property: "C05", monitor: format!("{flav}/{pol}/over-memory-after-concurrent-stores"), detail: format!("every operation has completed and the store holds {:?} = {tot} bytes with max_memory {m}", s.store.keys().collect::<Vec<_>>()) });
            }
        }
        let untracked: Vec<&String> = s.store.keys().filter(|k| !q.contains(k)).collect();
        if !untracked.is_empty() {
            fs.push(TFinding { property: "C18", monitor: format!("{flav}/{pol}/stored-but-untracked"), detail: format!("store holds {:?} that the order queue {:?} does not know", untracked, s.order) });

        }
        if let Some(n) = c.limit {
            if s.store.len() > n {
                fs.push(TFinding { property: "C18", monitor: format!("{flav}/{pol}/over-limit-at-quiescence"), detail: format!("store holds {} entries with limit {n}", s.store.len()) });
                fs.push(TFinding { property: "C04", monitor: format!("{flav}/{pol}/over-limit-after-concurrent-operations"), detail: format!("every operation has completed and the store holds {:?} with limit {n} (queue {:?})", s.store.keys().collect::<Vec<_>>(), s.order) });
            }
        }
        // a sequential continuation of the history: N fresh stores, the limit must hold after each of them
        if let Some(n) = c.limit {
            use crate::vals::Val;
            let subj = seqx::make_subject::<String>(c);
            for i in 0..n as u8 {
                subj.put(&format!("k{}", 5 + i), String::make(5 + i, 0, 8));
                let now = subj.snap();
                if now.store.len() > n {
                    fs.push(TFinding { property: "C18", monitor: format!("{flav}/{pol}/probe-over-limit"), detail: format!("after the threads returned and {} further stores the store holds {:?} with limit {n} (queue {:?})", i + 1, now.store.keys().collect::<Vec<_>>(), now.order) });
                    fs.push(TFinding { property: "C04", monitor: format!("{flav}/{pol}/over-limit-after-concurrent-operations"), detail: format!("after the threads returned and {} further stores the store holds {:?} with limit {n} (queue {:?})", i + 1, now.store.keys().collect::<Vec<_>>(), now.order) });
                    break;
                }
            }
        }
        for e in &events {
            if let TOp::L0Get(k) = &e.op {
                if e.result != "None" && !e.result.starts_with(&format!("Some(k{k}v")) {
                    fs.push(TFinding { property: "C18", monitor: format!("{flav}/{pol}/wrong-value"), detail: format!("get k{k} returned {}", e.result) });
                }
            }
        }
    }
    Quiescent { findings: fs, observation: obs }
}

/// L0 drivers: the state exactly as the threads left it is judged against the sequential orders of the same operations
fn l0_sequential_equivalent(d: &Driver, fs: &mut Vec<TFinding>, flav: &str, pol: &str) {
    if let Some(c) = &d.l0 {
        if let Some(why) = sequential_equivalent(d, c) {
            let mut props: Vec<&'static str> = vec!["C18"];
            match c.policy {
                Pol::Fifo | Pol::Lru => props.push("C07"),
                Pol::Lfu | Pol::Arc | Pol::Tlru => props.push("C08"),
                _ => {}
            }
            for pr in props {
                fs.push(TFinding { property: pr, monitor: format!("{flav}/{pol}/behaves-like-no-sequential-history"), detail: why.clone() });
            }
        }
    }
}

// ---------------------------------------------------------------------------------------------
// "some sequential history explains it": behaviour after quiescence (engine-level drivers)
// ---------------------------------------------------------------------------------------------

#[derive(Clone, Copy, Debug, PartialEq)]
enum FOp {
    Get(u8),
    Put(u8),
    Tick,
}

/// Every continuation of exactly `depth` steps over `alpha`, each run from the saved state: what every lookup
/// returns and which keys are stored after every step (the queue is not compared: an implementation may keep
/// whatever bookkeeping it likes as long as it behaves).
fn continuations(subj: &dyn seqx::Subject<String>, saved: &seqx::Saved<String>, now: u64, alpha: &[FOp], depth: usize) -> Vec<String> {
    use crate::vals::Val;
    let n = alpha.len();
    let mut idx = vec![0usize; depth];
    let mut out = Vec::new();
    loop {
        subj.restore(saved);
        vsched::clock_freeze(now);
        let mut obs = String::new();
        for i in &idx {
            match alpha[*i] {
                FOp::Get(k) => {
                    let r = std::panic::catch_unwind(std::panic::AssertUnwindSafe(|| subj.get(&format!("k{k}"))));
                    match r {
                        Ok(Some(v)) => obs.push_str(&format!("g{k}={v};")),
                        Ok(None) => obs.push_str(&format!("g{k}=-;")),
                        Err(_) => {
                            obs.push_str("PANIC");
                            break;
                        }
                    }
                }
                FOp::Put(k) => {
                    if std::panic::catch_unwind(std::panic::AssertUnwindSafe(|| subj.put(&format!("k{k}"), String::make(k, 7, 8)))).is_err() {
                        obs.push_str("PANIC");
                        break;
                    }
                    obs.push_str(&format!("p{k};"));
                }
                FOp::Tick => {
                    vsched::clock_advance(NS);
                    obs.push_str("t;");
                }
            }
            let keys: Vec<String> = subj.snap().store.keys().cloned().collect();
            obs.push_str(&format!("{}|", keys.join(",")));
        }
        out.push(obs);
        // odometer
        let mut p = depth;
        loop {
            if p == 0 {
                return out;
            }
            p -= 1;
            idx[p] += 1;
            if idx[p] < n {
                break;
            }
            idx[p] = 0;
        }
    }
}

fn interleavings(threads: &[Vec<TOp>]) -> Vec<Vec<TOp>> {
    fn rec(threads: &[Vec<TOp>], pos: &mut Vec<usize>, cur: &mut Vec<TOp>, out: &mut Vec<Vec<TOp>>) {
        let mut any = false;
        for t in 0..threads.len() {
            if pos[t] < threads[t].len() {
                any = true;
                cur.push(threads[t][pos[t]].clone());
                pos[t] += 1;
                rec(threads, pos, cur, out);
                pos[t] -= 1;
                cur.pop();
            }
        }
        if !any {
            out.push(cur.clone());
        }
    }
    let mut out = Vec::new();
    rec(threads, &mut vec![0; threads.len()], &mut Vec::new(), &mut out);
    out
}

static SEQ_EQ_SEEN: Mutex<BTreeMap<String, Option<String>>> = Mutex::new(BTreeMap::new());
/// (distinct final states judged, continuations run from them and from the sequential references, sequential orders tried)
pub static SEQ_EQ_STATS: Mutex<(u64, u64, u64)> = Mutex::new((0, 0, 0));

/// The state the threads left behind must behave, under every continuation of `depth` further sequential
/// operations, like the state some sequential order of the same operations leaves behind — possibly with
/// entries missing (a cache may always lose an entry; which ones are missing is read off the key sets).
/// The reference is the implementation itself, run sequentially. Returns a description of the mismatch.
fn sequential_equivalent(d: &Driver, c: &Config) -> Option<String> {
    if c.policy == Pol::Random || c.flavour == Flavour::Thread {
        return None;
    }
    let subj = seqx::make_subject::<String>(c);
    let snap = subj.snap();
    let now = vsched::clock_now().unwrap_or(START_NS);
    let phys = format!("{}#{:?}#{:?}#{now}", d.label, snap.store, snap.order);
    if let Some(v) = SEQ_EQ_SEEN.lock().unwrap().get(&phys) {
        return v.clone();
    }
    let saved = subj.save();
    // keys the driver touches, plus one fresh key
    let mut keys: BTreeSet<u8> = BTreeSet::new();
    for o in d.threads.iter().flatten().chain(d.setup.iter().filter_map(|s| if let SOp::Op(o) = s { Some(o) } else { None })) {
        match o {
            TOp::L0Get(k) | TOp::L0Put(k, _) => {
                keys.insert(*k);
            }
            _ => {}
        }
    }
    keys.insert(9);
    let mut alpha: Vec<FOp> = Vec::new();
    for k in &keys {
        alpha.push(FOp::Put(*k));
    }
    for k in keys.iter().filter(|k| **k != 9) {
        alpha.push(FOp::Get(*k));
    }
    if c.ttl.is_some() {
        alpha.push(FOp::Tick);
    }
    let depth = if alpha.len() <= 8 { 4 } else { 3 };
    let conc = continuations(&*subj, &saved, now, &alpha, depth);
    {
        let mut st = SEQ_EQ_STATS.lock().unwrap();
        st.0 += 1;
        st.1 += conc.len() as u64;
    }
    let conc_keys: BTreeSet<String> = snap.store.keys().cloned().collect();
    let mut tried = Vec::new();
    let mut verdict: Option<String> = None;
    let mut matched = false;
    for sigma in interleavings(&d.threads) {
        vsched::clock_freeze(START_NS);
        subj.reset();
        for st in &d.setup {
            match st {
                SOp::Op(o) => {
                    perform(o, &d.l0);
                }
                SOp::Tick(ns) => vsched::clock_advance(*ns),
            }
        }
        for o in &sigma {
            perform(o, &d.l0);
        }
        let ref_keys: BTreeSet<String> = subj.snap().store.keys().cloned().collect();
        let order: Vec<String> = sigma.iter().map(|o| o.render()).collect();
        if !conc_keys.is_subset(&ref_keys) {
            tried.push(format!("{order:?}: leaves {ref_keys:?}"));
            continue;
        }
        let missing: Vec<String> = ref_keys.difference(&conc_keys).cloned().collect();
        subj.forget(&missing);
        let saved_ref = subj.save();
        let r = continuations(&*subj, &saved_ref, now, &alpha, depth);
        {
            let mut st = SEQ_EQ_STATS.lock().unwrap();
            st.1 += r.len() as u64;
            st.2 += 1;
        }
        if r == conc {
            matched = true;
            break;
        }
        let first = r.iter().zip(conc.iter()).find(|(a, b)| a != b).map(|(a, b)| format!("sequential `{a}` vs after the threads `{b}`")).unwrap_or_default();
        tried.push(format!("{order:?}{}: {first}", if missing.is_empty() { String::new() } else { format!(" minus {missing:?}") }));
    }
    if !matched {
        verdict = Some(format!("store {:?} queue {:?}; no sequential order of the threads' operations leaves a cache that behaves the same over all {} continuations of {depth} steps: {}", snap.store.keys().collect::<Vec<_>>(), snap.order, conc.len(), tried.join(" || ")));
    }
    SEQ_EQ_SEEN.lock().unwrap().insert(phys, verdict.clone());
    verdict
}

// ---------------------------------------------------------------------------------------------
// exploring one driver
// ---------------------------------------------------------------------------------------------

pub struct DriverResult {
    pub schedules: u64,
    pub by_bound: Vec<(usize, String, u64)>,
    pub max_points: usize,
    pub points_total: u64,
    pub deadlocks: u64,
    pub distinct_observations: usize,
    pub violations: Vec<Violation>,
    pub sample: J,
    pub exec_cap_hit: bool,
    pub bound_used: usize,
}

pub fn policy_name(p: RwPolicy) -> &'static str {
    match p {
        RwPolicy::ReadersBarge => "readers-barge",
        RwPolicy::WriterPreference => "writer-preference",
    }
}

pub fn replay_json(d: &Driver, pol: RwPolicy, out: &Outcome) -> J {
    J::obj()
        .set("engine", "thrx")
        .set("driver", d.to_json())
        .set("rw_policy", policy_name(pol))
        .set("schedule", J::Arr(out.choices().iter().map(|c| J::Int(*c as i64)).collect()))
        .set("schedule_rendered", J::Arr(out.render_schedule().into_iter().map(J::Str).collect()))
}

pub fn explore_driver(d: &Driver, property: &str, max_bound: usize, unbounded_if_points_at_most: usize, max_execs: u64) -> DriverResult {
    let mut max_bound = max_bound;
    let prep = Prepared::new(d);
    prep.compute_isolated_patterns();
    let mut res = DriverResult {
        schedules: 0,
        by_bound: Vec::new(),
        max_points: 0,
        points_total: 0,
        deadlocks: 0,
        distinct_observations: 0,
        violations: Vec::new(),
        sample: J::Null,
        exec_cap_hit: false,
        bound_used: 0,
    };
    let mut observations: BTreeSet<String> = BTreeSet::new();
    let mut per_sig: BTreeMap<String, usize> = BTreeMap::new();
    let mut longest: Option<(usize, J)> = None;
    // determinism self-check: the default schedule twice
    {
        let a = vsched::run(&[], &[], prep.make_threads(), RwPolicy::ReadersBarge, 20_000);
        let qa = check_execution(&prep, &a);
        let b = vsched::run(&[], &[], prep.make_threads(), RwPolicy::ReadersBarge, 20_000);
        let qb = check_execution(&prep, &b);
        let thread_only = !prep.funcs.is_empty() && prep.funcs.iter().all(|f| f.flavour == Flavour::Thread);
        if thread_only && (a.render_schedule() != b.render_schedule() || qa.observation != qb.observation) {
            // every execution runs on fresh OS threads, so the same schedule can only behave
            // differently the second time if thread-scope state outlived (was shared between) threads
            if property == "C14" {
                res.violations.push(Violation {
                    property: "C14",
                    signature: format!("C14/thread/{}/state-outlives-its-thread", prep.funcs[0].pol().name()),
                    detail: format!("driver {}: the same schedule on fresh OS threads gave {} the first time and {} the second time", d.label, qa.observation, qb.observation),
                    replay: replay_json(d, RwPolicy::ReadersBarge, &b),
                });
            }
            res.schedules = 2;
            res.by_bound.push((0, policy_name(RwPolicy::ReadersBarge).to_string(), 2));
            res.points_total = (a.points.len() + b.points.len()) as u64;
            res.max_points = a.points.len().max(b.points.len());
            res.distinct_observations = 2;
            return res;
        }
        if a.render_schedule() != b.render_schedule() || qa.observation != qb.observation {
            // before giving up: if the oracles already object to one of the two runs, that is the verdict
            for (q, o) in [(&qa, &a), (&qb, &b)] {
                for f in q.findings.iter().filter(|f| f.property == property) {
                    res.violations.push(Violation {
                        property: f.property,
                        signature: format!("{}/{}", f.property, f.monitor),
                        detail: format!("{} | driver {} | default schedule (the same schedule behaved differently when run twice)", f.detail, d.label),
                        replay: replay_json(d, RwPolicy::ReadersBarge, o),
                    });
                }
            }
            if !res.violations.is_empty() {
                res.violations.truncate(2);
                res.schedules = 2;
                res.by_bound.push((0, policy_name(RwPolicy::ReadersBarge).to_string(), 2));
                res.points_total = (a.points.len() + b.points.len()) as u64;
                res.max_points = a.points.len().max(b.points.len());
                res.distinct_observations = 2;
                return res;
            }
            vsched::machinery_failure(&format!("driver {} is not deterministic:\n{:?}\n{:?}\n{}\n{}", d.label, a.render_schedule(), b.render_schedule(), qa.observation, qb.observation));
        }
        // drivers with only a handful of scheduling points (thread scope: operation boundaries
        // only) are explored without an effective preemption bound
        if a.points.len() <= unbounded_if_points_at_most {
            max_bound = max_bound.max(a.points.len());
        }
    }
    for pol in [RwPolicy::ReadersBarge, RwPolicy::WriterPreference] {
        for bound in 0..=max_bound {
            let mut n_here = 0u64;
            let st = vsched::explore(
                bound,
                pol,
                max_execs,
                &mut || prep.make_threads(),
                &mut |out| {
                    n_here += 1;
                    // schedules with fewer preemptions were already judged at the previous bound
                    if bound > 0 && out.preemptions() < bound {
                        return true;
                    }
                    let q = check_execution(&prep, out);
                    observations.insert(q.observation.clone());
                    for f in &q.findings {
                        if f.property != property {
                            continue;
                        }
                        let sig = format!("{}/{}", f.property, f.monitor);
                        let c = per_sig.entry(sig.clone()).or_insert(0);
                        *c += 1;
                        if *c <= 1 {
                            res.violations.push(Violation {
                                property: f.property,
                                signature: sig,
                                detail: format!("{} | driver {} | {} | {} preemptions | schedule {:?}", f.detail, d.label, policy_name(pol), out.preemptions(), out.render_schedule()),
                                replay: replay_json(d, pol, out),
                            });
                        }
                    }
                    if longest.as_ref().map_or(true, |l| out.points.len() > l.0) {
                        longest = Some((out.points.len(), J::obj().set("driver", d.label.clone()).set("rw_policy", policy_name(pol)).set("preemptions", out.preemptions()).set("schedule", J::Arr(out.render_schedule().into_iter().map(J::Str).collect())).set("observed", q.observation.clone())));
                    }
                    true
                },
            );
            if let Some(dv) = &st.diverged {
                let thread_only = !prep.funcs.is_empty() && prep.funcs.iter().all(|f| f.flavour == Flavour::Thread);
                if thread_only {
                    if property == "C14" {
                        res.violations.push(Violation {
                            property: "C14",
                            signature: format!("C14/thread/{}/state-outlives-its-thread", prep.funcs[0].pol().name()),
                            detail: format!("driver {}: replaying a schedule prefix on fresh OS threads met different lock/enabled sets ({dv}): thread-scope state leaked between executions", d.label),
                            replay: J::obj().set("engine", "thrx").set("driver", d.to_json()).set("rw_policy", policy_name(pol)).set("schedule", J::Arr(vec![])),
                        });
                    }
                    res.by_bound.push((bound, policy_name(pol).to_string(), st.executions));
                    res.schedules += st.executions;
                    res.distinct_observations = observations.len().max(1);
                    res.points_total += st.points_total;
                    res.max_points = res.max_points.max(st.max_points);
                    return res;
                }
                vsched::machinery_failure(dv);
            }
            res.by_bound.push((bound, policy_name(pol).to_string(), st.executions));
            res.max_points = res.max_points.max(st.max_points);
            res.points_total += st.points_total;
            res.deadlocks += st.deadlocks;
            res.exec_cap_hit |= st.exec_cap_hit;
            if bound == max_bound {
                res.schedules += st.executions;
                res.bound_used = max_bound;
            }
            let _ = n_here;
        }
    }
    res.distinct_observations = observations.len();
    res.sample = longest.map(|l| l.1).unwrap_or(J::Null);
    res
}

// ---------------------------------------------------------------------------------------------
// driver menus
// ---------------------------------------------------------------------------------------------

fn conc(flavour: Flavour) -> Vec<&'static FnInfo> {
    FUNCS.iter().filter(|f| f.family == "conc" && f.flavour == flavour).collect()
}

fn call(f: &FnInfo, k: u32) -> TOp {
    TOp::Call { f: f.id, k }
}

pub fn drivers_for(property: &str, thorough: bool) -> Vec<Driver> {
    let mut out: Vec<Driver> = Vec::new();
    let mut push = |label: String, setup: Vec<SOp>, threads: Vec<Vec<TOp>>, l0: Option<Config>, atomic: bool| {
        out.push(Driver { label, setup, threads, l0, atomic_points: atomic });
    };
    match property {
        "C16" | "C17" | "C18" => {
            for fl in [Flavour::Global, Flavour::Async] {
                for f in conc(fl) {
                    let all = u32::MAX;
                    // what the "other" thread does
                    let others: Vec<(&str, Vec<TOp>)> = vec![
                        ("invalidate_with", vec![TOp::InvWith { f: f.id, mask: all }]),
                        ("invalidate_with-some", vec![TOp::InvWith { f: f.id, mask: 0b10 }]),
                        ("invalidate_all_with", vec![TOp::InvAllWith { f: f.id, mask: all }]),
                        ("by_tag", vec![TOp::ByTag("t".into())]),
                        ("by_event", vec![TOp::ByEvent("e".into())]),
                        ("invalidate_cache", vec![TOp::InvCache { f: f.id }]),
                        ("stats", vec![TOp::StatsGet { f: f.id }, TOp::StatsReset { f: f.id }, TOp::StatsList]),
                        ("call-same", vec![call(f, 2)]),
                        ("call-other", vec![call(f, 3)]),
                        ("call-resident", vec![call(f, 1)]),
                    ];
                    // what the calling thread meets
                    let mut setups: Vec<(&str, Vec<SOp>, Vec<TOp>)> = vec![
                        ("miss-on-empty", vec![], vec![call(f, 2)]),
                        ("miss-overflow", vec![SOp::Op(call(f, 1))], vec![call(f, 2)]),
                        ("hit", vec![SOp::Op(call(f, 1))], vec![call(f, 1)]),
                        ("two-stores", vec![], vec![call(f, 1), call(f, 2)]),
                    ];
                    if let Some(t) = f.ttl {
                        setups.push(("expired", vec![SOp::Op(call(f, 1)), SOp::Tick((t + 1) * NS)], vec![call(f, 1)]));
                        setups.push(("expired-then-other", vec![SOp::Op(call(f, 1)), SOp::Tick((t + 1) * NS)], vec![call(f, 1), call(f, 2)]));
                    }
                    if f.mem.is_some() {
                        setups.push(("memory-overflow", vec![SOp::Op(call(f, 1)), SOp::Op(call(f, 3))], vec![call(f, 2)]));
                        setups.push(("oversized", vec![SOp::Op(call(f, 1))], vec![call(f, 9)]));
                    }
                    for (sn, setup, prog) in &setups {
                        for (on, other) in &others {
                            push(format!("{}:{}~{}", f.fn_name, sn, on), setup.clone(), vec![prog.clone(), other.clone()], None, false);
                        }
                    }
                    if thorough {
                        // selected triples: two callers and one invalidator
                        for (on, other) in others.iter().take(6) {
                            push(
                                format!("{}:3-threads~{}", f.fn_name, on),
                                vec![SOp::Op(call(f, 1))],
                                vec![vec![call(f, 2)], vec![call(f, 3)], other.clone()],
                                None,
                                false,
                            );
                        }
                    }
                }
            }
            if property == "C18" {
                // L0: harness-owned storage, queue inspected directly
                for fl in [Flavour::Global, Flavour::Async] {
                    for pol in [Pol::Fifo, Pol::Lru, Pol::Lfu] {
                        for (ttl, tname) in [(None, "nottl"), (Some(2u64), "ttl")] {
                            let cfg = Config { flavour: fl, policy: pol, limit: Some(1), ttl, max_memory: None, fw: None, vtype: "String" };
                            let lbl = |s: &str| format!("L0:{}/{}/{}:{}", fl.name(), pol.name(), tname, s);
                            push(lbl("put~put"), vec![], vec![vec![TOp::L0Put(0, 0)], vec![TOp::L0Put(1, 0)]], Some(cfg.clone()), false);
                            // k1 and k2 live in the same DashMap shard, k0 and k1 in different ones (`engine shards`)
                            push(lbl("put~put (same shard)"), vec![], vec![vec![TOp::L0Put(1, 0)], vec![TOp::L0Put(2, 0)]], Some(cfg.clone()), false);
                            push(lbl("put-same~put-same"), vec![], vec![vec![TOp::L0Put(0, 0)], vec![TOp::L0Put(0, 1)]], Some(cfg.clone()), false);
                            push(lbl("get-hit~put"), vec![SOp::Op(TOp::L0Put(0, 0))], vec![vec![TOp::L0Get(0)], vec![TOp::L0Put(1, 0)]], Some(cfg.clone()), false);
                            if fl == Flavour::Global {
                                push(lbl("put~clear"), vec![SOp::Op(TOp::L0Put(0, 0))], vec![vec![TOp::L0Put(1, 0)], vec![TOp::L0Clear]], Some(cfg.clone()), false);
                            }
                            if let Some(t) = ttl {
                                push(lbl("get-expired~put-same"), vec![SOp::Op(TOp::L0Put(0, 0)), SOp::Tick((t + 1) * NS)], vec![vec![TOp::L0Get(0)], vec![TOp::L0Put(0, 1)]], Some(cfg.clone()), false);
                                push(lbl("get-expired~get-expired"), vec![SOp::Op(TOp::L0Put(0, 0)), SOp::Tick((t + 1) * NS)], vec![vec![TOp::L0Get(0)], vec![TOp::L0Get(0)]], Some(cfg.clone()), false);
                                push(lbl("get-expired~put-other"), vec![SOp::Op(TOp::L0Put(0, 0)), SOp::Tick((t + 1) * NS)], vec![vec![TOp::L0Get(0)], vec![TOp::L0Put(1, 0)]], Some(cfg.clone()), false);
                            }
                        }
                    }
                }
            }
        }
        "C04" => {
            // the entry limit also holds once concurrent stores have completed
            for fl in [Flavour::Global, Flavour::Async] {
                for f in conc(fl).into_iter().filter(|f| f.limit.is_some() && f.ttl.is_none() && f.mem.is_none()) {
                    push(format!("{}:store~store", f.fn_name), vec![], vec![vec![call(f, 2)], vec![call(f, 3)]], None, false);
                    push(format!("{}:store~store at the limit", f.fn_name), vec![SOp::Op(call(f, 1))], vec![vec![call(f, 2)], vec![call(f, 3)]], None, false);
                    push(format!("{}:store~store same key", f.fn_name), vec![SOp::Op(call(f, 1))], vec![vec![call(f, 2)], vec![call(f, 2)]], None, false);
                    push(format!("{}:two stores~hit", f.fn_name), vec![SOp::Op(call(f, 1))], vec![vec![call(f, 2), call(f, 3)], vec![call(f, 1)]], None, false);
                    if thorough {
                        push(format!("{}:3 stores", f.fn_name), vec![SOp::Op(call(f, 1))], vec![vec![call(f, 2)], vec![call(f, 3)], vec![call(f, 4)]], None, false);
                    }
                }
            }
            // the engines themselves (harness-owned storage): a lookup of an expired entry racing with stores; the limit
            // must hold and every stored key must still be known to the queue that the limit is counted on
            for fl in [Flavour::Global, Flavour::Async] {
                for pol in [Pol::Fifo, Pol::Lru, Pol::Lfu] {
                    for lim in [1usize, 2] {
                        let cfg = Config { flavour: fl, policy: pol, limit: Some(lim), ttl: Some(2), max_memory: None, fw: None, vtype: "String" };
                        let lbl = |s: &str| format!("L0:{}/{}/limit={lim}/ttl:{}", fl.name(), pol.name(), s);
                        let expired = vec![SOp::Op(TOp::L0Put(0, 0)), SOp::Tick(3 * NS)];
                        let mut refill: Vec<TOp> = vec![TOp::L0Put(0, 1)];
                        for k in 1..=lim as u8 {
                            refill.push(TOp::L0Put(k, 0));
                        }
                        push(lbl("get-expired~put-same then fill"), expired.clone(), vec![vec![TOp::L0Get(0)], refill.clone()], Some(cfg.clone()), false);
                        if lim == 1 || thorough {
                            push(lbl("get-expired, put-same~put-other"), expired.clone(), vec![vec![TOp::L0Get(0), TOp::L0Put(0, 1)], vec![TOp::L0Put(1, 0)]], Some(cfg.clone()), false);
                        }
                    }
                }
            }
        }
        "C13" => {
            // a lookup or a store overlapping with an invalidation of the same key: afterwards limits and eviction order
            // behave as if the removed entries had never been stored (judged by the recency probe and the bound probes)
            for fl in [Flavour::Global, Flavour::Async] {
                for f in conc(fl).into_iter().filter(|f| f.limit == Some(2) && f.ttl.is_none() && f.mem.is_none()) {
                    let full = vec![SOp::Op(call(f, 1)), SOp::Op(call(f, 2))];
                    let invs: Vec<(&str, TOp)> = vec![
                        ("invalidate_with", TOp::InvWith { f: f.id, mask: 0b0010 }),
                        ("invalidate_all_with", TOp::InvAllWith { f: f.id, mask: 0b0010 }),
                        ("by_tag", TOp::ByTag("t".into())),
                        ("invalidate_cache", TOp::InvCache { f: f.id }),
                    ];
                    for (n, inv) in &invs {
                        push(format!("{}:hit~{}", f.fn_name, n), full.clone(), vec![vec![call(f, 1)], vec![inv.clone()]], None, false);
                        push(format!("{}:hit other~{}", f.fn_name, n), full.clone(), vec![vec![call(f, 2)], vec![inv.clone()]], None, false);
                        push(format!("{}:store~{}", f.fn_name, n), vec![SOp::Op(call(f, 1))], vec![vec![call(f, 3)], vec![inv.clone()]], None, false);
                        if thorough {
                            push(format!("{}:hit, hit~{}", f.fn_name, n), full.clone(), vec![vec![call(f, 1), call(f, 2)], vec![inv.clone()]], None, false);
                        }
                    }
                }
            }
        }
        "C05" => {
            // the memory bound also holds once concurrent stores have completed
            for fl in [Flavour::Global, Flavour::Async] {
                for f in conc(fl).into_iter().filter(|f| f.mem.is_some() && f.ttl.is_none()) {
                    push(format!("{}:store~store", f.fn_name), vec![], vec![vec![call(f, 2)], vec![call(f, 3)]], None, false);
                    push(format!("{}:store~store when full", f.fn_name), vec![SOp::Op(call(f, 1)), SOp::Op(call(f, 4))], vec![vec![call(f, 2)], vec![call(f, 3)]], None, false);
                    push(format!("{}:store~store same key when full", f.fn_name), vec![SOp::Op(call(f, 1)), SOp::Op(call(f, 4))], vec![vec![call(f, 2)], vec![call(f, 2)]], None, false);
                    push(format!("{}:two stores~hit", f.fn_name), vec![SOp::Op(call(f, 1)), SOp::Op(call(f, 4))], vec![vec![call(f, 2), call(f, 3)], vec![call(f, 1)]], None, false);
                    push(format!("{}:oversized~store", f.fn_name), vec![SOp::Op(call(f, 1))], vec![vec![call(f, 9)], vec![call(f, 2)]], None, false);
                    if thorough {
                        push(format!("{}:3 stores", f.fn_name), vec![SOp::Op(call(f, 1)), SOp::Op(call(f, 4))], vec![vec![call(f, 2)], vec![call(f, 3)], vec![call(f, 5)]], None, false);
                    }
                }
            }
            // the engines themselves: budget for two of the 32-byte values
            for fl in [Flavour::Global, Flavour::Async] {
                for pol in [Pol::Fifo, Pol::Lru, Pol::Lfu] {
                    let cfg = Config { flavour: fl, policy: pol, limit: None, ttl: None, max_memory: Some(70), fw: None, vtype: "String" };
                    let lbl = |s: &str| format!("L0:{}/{}/mem=70:{}", fl.name(), pol.name(), s);
                    let full = vec![SOp::Op(TOp::L0Put(0, 0)), SOp::Op(TOp::L0Put(1, 0))];
                    push(lbl("evicting put~evicting put"), full.clone(), vec![vec![TOp::L0Put(2, 0)], vec![TOp::L0Put(3, 0)]], Some(cfg.clone()), false);
                    push(lbl("hit~evicting put"), full.clone(), vec![vec![TOp::L0Get(0)], vec![TOp::L0Put(2, 0)]], Some(cfg.clone()), false);
                    push(lbl("re-store~evicting put"), full.clone(), vec![vec![TOp::L0Put(0, 1)], vec![TOp::L0Put(2, 0)]], Some(cfg.clone()), false);
                    push(lbl("put~put from empty"), vec![], vec![vec![TOp::L0Put(0, 0), TOp::L0Put(1, 0)], vec![TOp::L0Put(2, 0)]], Some(cfg.clone()), false);
                }
            }
        }
        "C07" | "C08" => {
            // engine-level races at a full cache; what the threads leave behind must evict, under every continuation
            // of four further sequential operations, like the cache some sequential order of the same operations leaves
            let pols: &[Pol] = if property == "C07" { &[Pol::Fifo, Pol::Lru] } else { &[Pol::Lfu, Pol::Arc, Pol::Tlru] };
            for fl in [Flavour::Global, Flavour::Async] {
                for pol in pols {
                    for lim in if thorough { vec![2usize, 3] } else { vec![2usize] } {
                        let cfg = Config { flavour: fl, policy: *pol, limit: Some(lim), ttl: None, max_memory: None, fw: None, vtype: "String" };
                        let lbl = |s: &str| format!("L0:{}/{}/limit={lim}:{}", fl.name(), pol.name(), s);
                        let full: Vec<SOp> = (0..lim as u8).map(|k| SOp::Op(TOp::L0Put(k, 0))).collect();
                        let fresh = lim as u8;
                        push(lbl("hit~evicting put"), full.clone(), vec![vec![TOp::L0Get(0)], vec![TOp::L0Put(fresh, 0)]], Some(cfg.clone()), false);
                        push(lbl("hit~hit"), full.clone(), vec![vec![TOp::L0Get(0)], vec![TOp::L0Get(1)]], Some(cfg.clone()), false);
                        push(lbl("re-store~evicting put"), full.clone(), vec![vec![TOp::L0Put(0, 1)], vec![TOp::L0Put(fresh, 0)]], Some(cfg.clone()), false);
                        push(lbl("evicting put~evicting put"), full.clone(), vec![vec![TOp::L0Put(fresh, 0)], vec![TOp::L0Put(fresh + 1, 0)]], Some(cfg.clone()), false);
                        if thorough || lim == 2 {
                            push(lbl("hit, hit~evicting put"), full.clone(), vec![vec![TOp::L0Get(0), TOp::L0Get(1)], vec![TOp::L0Put(fresh, 0)]], Some(cfg.clone()), false);
                        }
                        if lim == 2 {
                            // with holding points: bookkeeping that only *tries* a lock meets a thread that holds it
                            push(lbl("hit~hit [held]"), full.clone(), vec![vec![TOp::L0Get(0)], vec![TOp::L0Get(1)]], Some(cfg.clone()), false);
                            push(lbl("hit~evicting put [held]"), full.clone(), vec![vec![TOp::L0Get(0)], vec![TOp::L0Put(fresh, 0)]], Some(cfg.clone()), false);
                        }
                    }
                }
            }
        }
        "C12" => {
            // group invalidations racing with each other and with calls: counts stay exact, matching caches end up empty
            for fl in [Flavour::Global, Flavour::Async] {
                for f in conc(fl).into_iter().filter(|f| f.has_meta() && !f.deps.is_empty() && matches!((f.pol(), f.limit), (Pol::Lru, Some(1)) | (Pol::Fifo, None) | (Pol::Fifo, Some(2)))) {
                    let reqs: Vec<(&str, TOp)> = vec![
                        ("by_tag", TOp::ByTag("t".into())),
                        ("by_event", TOp::ByEvent("e".into())),
                        ("by_dep", TOp::ByDep("d".into())),
                        ("invalidate_cache", TOp::InvCache { f: f.id }),
                    ];
                    for (an, a) in &reqs {
                        for (bn, b) in &reqs {
                            push(format!("{}:{}~{}", f.fn_name, an, bn), vec![SOp::Op(call(f, 1))], vec![vec![a.clone()], vec![b.clone()]], None, false);
                        }
                        push(format!("{}:{}x2~{}", f.fn_name, an, an), vec![SOp::Op(call(f, 1))], vec![vec![a.clone(), a.clone()], vec![a.clone()]], None, false);
                        push(format!("{}:{}~call", f.fn_name, an), vec![SOp::Op(call(f, 1))], vec![vec![a.clone()], vec![call(f, 2)]], None, false);
                        if thorough {
                            push(format!("{}:{}x3", f.fn_name, an), vec![SOp::Op(call(f, 1))], vec![vec![a.clone()], vec![a.clone()], vec![a.clone()]], None, false);
                        }
                    }
                    push(format!("{}:undeclared~by_dep", f.fn_name), vec![SOp::Op(call(f, 1))], vec![vec![TOp::ByDep("zz".into())], vec![TOp::ByDep("d".into())]], None, false);
                }
            }
        }
        "C14" => {
            // thread scope: every pair (and selected triples) of short programs over two keys
            let progs2: Vec<Vec<u32>> = vec![vec![1, 1], vec![1, 2], vec![2, 1], vec![1, 2, 1], vec![1, 2, 3], vec![2, 2, 1]];
            for f in conc(Flavour::Thread) {
                let random_limited = f.pol() == Pol::Random && f.limit.is_some();
                if random_limited {
                    continue; // the isolated run cannot be paired with the same random victims
                }
                for (i, a) in progs2.iter().enumerate() {
                    for (j, b) in progs2.iter().enumerate() {
                        if !thorough && (i + j) % 2 == 1 {
                            continue;
                        }
                        push(
                            format!("T:{}:{:?}~{:?}", f.fn_name, a, b),
                            vec![],
                            vec![a.iter().map(|k| call(f, *k)).collect(), b.iter().map(|k| call(f, *k)).collect()],
                            None,
                            false,
                        );
                    }
                }
                push(format!("T:{}:3 threads", f.fn_name), vec![], vec![vec![call(f, 1), call(f, 2)], vec![call(f, 1), call(f, 1)], vec![call(f, 2), call(f, 1)]], None, false);
                if thorough {
                    push(format!("T:{}:4 threads", f.fn_name), vec![], vec![vec![call(f, 1), call(f, 2)], vec![call(f, 1)], vec![call(f, 2), call(f, 1)], vec![call(f, 1)]], None, false);
                }
            }
            // global scope (sync and async): what one thread stored, every other thread is served
            for fl in [Flavour::Global, Flavour::Async] {
                let f = FUNCS.iter().find(|f| f.family == "conc" && f.flavour == fl && f.limit.is_none() && f.ttl.is_none() && f.mem.is_none()).unwrap();
                push(format!("{}:store then read elsewhere", f.fn_name), vec![], vec![vec![call(f, 1)], vec![call(f, 1)]], None, false);
                push(format!("{}:two keys crossing", f.fn_name), vec![], vec![vec![call(f, 1), call(f, 2)], vec![call(f, 2), call(f, 1)]], None, false);
                push(format!("{}:3 threads", f.fn_name), vec![], vec![vec![call(f, 1)], vec![call(f, 1), call(f, 2)], vec![call(f, 2)]], None, false);
            }
            // a lookup of a stored key while another thread is inside a store / a hit's bookkeeping / an invalidation of the
            // same cache, *holding* its locks: the lookup must wait or succeed, not report a miss ("[held]": threads may be
            // descheduled while holding a lock, so try-lock style shortcuts see contention)
            for fl in [Flavour::Global, Flavour::Async] {
                for f in conc(fl).into_iter().filter(|f| f.limit.is_none() && f.ttl.is_none() && f.mem.is_none()) {
                    push(format!("{}:resident read~store other [held]", f.fn_name), vec![SOp::Op(call(f, 1))], vec![vec![call(f, 1)], vec![call(f, 2)]], None, false);
                    push(format!("{}:resident read~resident read [held]", f.fn_name), vec![SOp::Op(call(f, 1)), SOp::Op(call(f, 2))], vec![vec![call(f, 1)], vec![call(f, 2)]], None, false);
                    if thorough {
                        push(format!("{}:resident read~invalidate_with nothing [held]", f.fn_name), vec![SOp::Op(call(f, 1))], vec![vec![call(f, 1)], vec![TOp::InvWith { f: f.id, mask: 0 }]], None, false);
                    }
                }
            }
            // two callers that both missed store the same key one after the other while a third thread looks it up:
            // the second store must not make the entry disappear for a moment (every policy has its own store path)
            for fl in [Flavour::Global, Flavour::Async] {
                for f in conc(fl).into_iter().filter(|f| f.limit.is_none() && f.ttl.is_none() && f.mem.is_none()) {
                    push(format!("{}:same key x3", f.fn_name), vec![], vec![vec![call(f, 1)], vec![call(f, 1)], vec![call(f, 1)]], None, false);
                    if thorough {
                        push(format!("{}:same key, twice + once + once", f.fn_name), vec![], vec![vec![call(f, 1), call(f, 1)], vec![call(f, 1)], vec![call(f, 1)]], None, false);
                    }
                }
            }
        }
        "C03" => {
            for fl in [Flavour::Global, Flavour::Async] {
                for f in conc(fl).into_iter().filter(|f| f.limit.is_none() && f.ttl.is_none() && f.mem.is_none()) {
                    push(format!("{}:same-key x2", f.fn_name), vec![], vec![vec![call(f, 1)], vec![call(f, 1)]], None, false);
                    push(format!("{}:same-key then again", f.fn_name), vec![], vec![vec![call(f, 1), call(f, 1)], vec![call(f, 1)]], None, false);
                    push(format!("{}:two keys crossing", f.fn_name), vec![], vec![vec![call(f, 1), call(f, 2)], vec![call(f, 2), call(f, 1)]], None, false);
                    push(format!("{}:same-key x3", f.fn_name), vec![], vec![vec![call(f, 1)], vec![call(f, 1)], vec![call(f, 1)]], None, false);
                    push(format!("{}:resident + newcomer", f.fn_name), vec![SOp::Op(call(f, 1))], vec![vec![call(f, 1), call(f, 2)], vec![call(f, 2), call(f, 1)]], None, false);
                    if thorough {
                        push(format!("{}:3 threads 2 keys", f.fn_name), vec![], vec![vec![call(f, 1), call(f, 2)], vec![call(f, 2)], vec![call(f, 1)]], None, false);
                        push(format!("{}:same-key x3 then again", f.fn_name), vec![], vec![vec![call(f, 1), call(f, 1)], vec![call(f, 1)], vec![call(f, 1)]], None, false);
                    }
                }
            }
            // bodies whose outcome differs between concurrent executions (Ok for one caller, Err for another): once a
            // call that returned Ok has stored and returned, nobody runs the body again
            for f in FUNCS.iter().filter(|f| f.family == "result" && f.flavour != Flavour::Thread && f.policy.is_none() && f.limit.is_none() && f.ttl.is_none() && f.mem.is_none() && !f.has_inval_on) {
                push(format!("{}:same-key x2", f.fn_name), vec![], vec![vec![call(f, 1)], vec![call(f, 1)]], None, false);
                push(format!("{}:same-key then again", f.fn_name), vec![], vec![vec![call(f, 1), call(f, 1)], vec![call(f, 1)]], None, false);
                if thorough {
                    push(format!("{}:same-key x3", f.fn_name), vec![], vec![vec![call(f, 1)], vec![call(f, 1)], vec![call(f, 1)]], None, false);
                }
            }
        }
        "C09" => {
            for f in FUNCS.iter().filter(|f| f.family == "result" && f.flavour != Flavour::Thread && f.policy.is_none() && f.limit.is_none() && f.ttl.is_none() && f.mem.is_none() && !f.has_inval_on) {
                // every body outcome (Ok / Err) is a further branch of the exploration
                push(format!("{}:same-key x2", f.fn_name), vec![], vec![vec![call(f, 1)], vec![call(f, 1)]], None, false);
                push(format!("{}:same-key then again", f.fn_name), vec![], vec![vec![call(f, 1), call(f, 1)], vec![call(f, 1)]], None, false);
                push(format!("{}:resident + late caller", f.fn_name), vec![SOp::Op(call(f, 2))], vec![vec![call(f, 1), call(f, 2)], vec![call(f, 1)]], None, false);
                if thorough {
                    push(format!("{}:same-key x3", f.fn_name), vec![], vec![vec![call(f, 1)], vec![call(f, 1)], vec![call(f, 1)]], None, false);
                    push(format!("{}:two keys crossing", f.fn_name), vec![], vec![vec![call(f, 1), call(f, 2)], vec![call(f, 2), call(f, 1)]], None, false);
                }
            }
        }
        "C01" => {
            // a hit's bookkeeping racing with a refresh of the same key, under the policies that write on a hit
            for f in FUNCS.iter().filter(|f| f.family == "inval_on" && f.flavour != Flavour::Thread && matches!(f.pol(), Pol::Lfu | Pol::Arc | Pol::Tlru | Pol::Lru) && f.limit == Some(2) && f.ttl.is_none() && f.mem.is_none()) {
                push(format!("{}:resident x2", f.fn_name), vec![SOp::Op(call(f, 1))], vec![vec![call(f, 1)], vec![call(f, 1)]], None, false);
                if thorough {
                    push(format!("{}:resident, twice + once", f.fn_name), vec![SOp::Op(call(f, 1))], vec![vec![call(f, 1), call(f, 1)], vec![call(f, 1)]], None, false);
                }
            }
        }
        "C10" | "C11" => {
            if property == "C11" {
                for f in FUNCS.iter().filter(|f| f.family == "inval_on" && f.flavour != Flavour::Thread && matches!(f.pol(), Pol::Lfu | Pol::Arc | Pol::Tlru | Pol::Lru) && f.limit == Some(2) && f.ttl.is_none() && f.mem.is_none()) {
                    push(format!("{}:resident x2", f.fn_name), vec![SOp::Op(call(f, 1))], vec![vec![call(f, 1)], vec![call(f, 1)]], None, false);
                }
            }
            let fam = if property == "C10" { "cache_if" } else { "inval_on" };
            for f in FUNCS.iter().filter(|f| f.family == fam && f.flavour != Flavour::Thread && f.policy.is_none() && f.limit.is_none() && f.ttl.is_none() && f.mem.is_none() && !f.is_result && (f.has_cache_if != f.has_inval_on)) {
                // every verdict is a further branch of the exploration
                push(format!("{}:same-key x2", f.fn_name), vec![], vec![vec![call(f, 1)], vec![call(f, 1)]], None, false);
                push(format!("{}:resident x2", f.fn_name), vec![SOp::Op(call(f, 1))], vec![vec![call(f, 1)], vec![call(f, 1)]], None, false);
                push(format!("{}:same-key then again", f.fn_name), vec![], vec![vec![call(f, 1), call(f, 1)], vec![call(f, 1)]], None, false);
                if thorough {
                    push(format!("{}:resident, twice + once", f.fn_name), vec![SOp::Op(call(f, 1))], vec![vec![call(f, 1), call(f, 1)], vec![call(f, 1)]], None, false);
                    push(format!("{}:same-key x3", f.fn_name), vec![], vec![vec![call(f, 1)], vec![call(f, 1)], vec![call(f, 1)]], None, false);
                }
            }
        }
        "C15" => {
            for fl in [Flavour::Global, Flavour::Async] {
                for f in conc(fl).into_iter().filter(|f| matches!((f.pol(), f.limit, f.ttl), (Pol::Fifo, None, None) | (Pol::Lru, Some(1), None) | (Pol::Fifo, Some(1), Some(2)) | (Pol::Lfu, Some(1), None))) {
                    push(format!("{}:hit~hit", f.fn_name), vec![SOp::Op(call(f, 1))], vec![vec![call(f, 1)], vec![call(f, 1)]], None, true);
                    push(format!("{}:miss~miss", f.fn_name), vec![], vec![vec![call(f, 1)], vec![call(f, 2)]], None, true);
                    push(format!("{}:hit~miss", f.fn_name), vec![SOp::Op(call(f, 1))], vec![vec![call(f, 1)], vec![call(f, 2)]], None, true);
                    push(format!("{}:same-miss", f.fn_name), vec![], vec![vec![call(f, 1)], vec![call(f, 1)]], None, true);
                    if let Some(t) = f.ttl {
                        push(format!("{}:expired~expired", f.fn_name), vec![SOp::Op(call(f, 1)), SOp::Tick((t + 1) * NS)], vec![vec![call(f, 1)], vec![call(f, 1)]], None, true);
                    }
                    if thorough {
                        push(format!("{}:3 threads", f.fn_name), vec![SOp::Op(call(f, 1))], vec![vec![call(f, 1)], vec![call(f, 2)], vec![call(f, 1)]], None, true);
                        push(format!("{}:2x2", f.fn_name), vec![], vec![vec![call(f, 1), call(f, 1)], vec![call(f, 1), call(f, 2)]], None, true);
                    }
                }
            }
        }
        _ => {}
    }
    out.extend(crate::cold::drivers_for(property, thorough));
    out
}
