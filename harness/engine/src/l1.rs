//! Runtime support for the generated corpus of `#[cache]` / `#[cache_async]` functions (L1).
//!
//! Bodies log their executions, take their outcome from the explorer (`vsched::choose`) and
//! return values that encode (function id, key, version), so a value served for the wrong key
//! or the wrong function is visibly wrong. Predicates log what they were consulted with.
use crate::common::{Flavour, Pol};
use std::collections::HashMap;
use std::future::Future;
use std::pin::Pin;
use std::sync::Mutex;
use std::task::{Context, Poll, RawWaker, RawWakerVTable, Waker};

#[derive(Clone, Debug, PartialEq, Eq)]
pub enum Ret {
    Plain(String),
    Res(Result<String, String>),
}

impl Ret {
    pub fn render(&self) -> String {
        match self {
            Ret::Plain(s) => s.clone(),
            Ret::Res(Ok(s)) => format!("Ok({s})"),
            Ret::Res(Err(s)) => format!("Err({s})"),
        }
    }
    pub fn payload(&self) -> &str {
        match self {
            Ret::Plain(s) => s,
            Ret::Res(Ok(s)) => s,
            Ret::Res(Err(s)) => s,
        }
    }
}

#[derive(Clone, Copy, Debug)]
pub struct FnInfo {
    pub id: u32,
    /// name the cache is registered under (the `name` attribute or the function name)
    pub name: &'static str,
    pub fn_name: &'static str,
    pub family: &'static str,
    pub flavour: Flavour,
    /// None = no `policy` attribute (documented default: FIFO)
    pub policy: Option<Pol>,
    pub limit: Option<usize>,
    pub ttl: Option<u64>,
    pub mem: Option<usize>,
    pub fw: Option<f64>,
    pub is_result: bool,
    pub has_cache_if: bool,
    pub has_inval_on: bool,
    pub versioned: bool,
    pub tags: &'static [&'static str],
    pub events: &'static [&'static str],
    pub deps: &'static [&'static str],
    pub call: fn(u32) -> Ret,
    /// gate family only: create the future without polling it
    pub spawn: Option<fn(u32) -> BoxFut>,
    /// number of harness-controlled await points in the body
    pub gates: usize,
    /// the function takes no arguments: whatever key the harness passes, there is one entry (key "")
    pub zero_arg: bool,
}

pub type BoxFut = Pin<Box<dyn Future<Output = String>>>;

impl FnInfo {
    pub fn pol(&self) -> Pol {
        self.policy.unwrap_or(Pol::Fifo)
    }
    pub fn has_meta(&self) -> bool {
        !(self.tags.is_empty() && self.events.is_empty() && self.deps.is_empty())
    }
    pub fn label(&self) -> String {
        format!(
            "{}[{} {} policy={} limit={} ttl={} mem={}{}{}{}]",
            self.fn_name,
            self.family,
            self.flavour.name(),
            self.policy.map_or("default", |p| p.name()),
            self.limit.map_or("-".into(), |x| x.to_string()),
            self.ttl.map_or("-".into(), |x| x.to_string()),
            self.mem.map_or("-".into(), |x| x.to_string()),
            if self.is_result { " result" } else { "" },
            if self.has_cache_if { " cache_if" } else { "" },
            if self.has_inval_on { " invalidate_on" } else { "" },
        )
    }
}

// ---------------------------------------------------------------------------------------------
// logs and scripts (plain std mutexes: never held across a scheduling point)
// ---------------------------------------------------------------------------------------------

#[derive(Clone, Debug, PartialEq, Eq)]
pub enum Ev {
    Exec { fid: u32, k: u32, thread: Option<usize>, ver: u32 },
    CacheIf { fid: u32, key: String, val: String, verdict: bool, thread: Option<usize> },
    InvalOn { fid: u32, key: String, val: String, verdict: bool, thread: Option<usize> },
}

pub static LOG: Mutex<Vec<Ev>> = Mutex::new(Vec::new());
static VERSIONS: Mutex<Option<HashMap<(u32, u32), u32>>> = Mutex::new(None);

pub fn log_take() -> Vec<Ev> {
    std::mem::take(&mut *LOG.lock().unwrap())
}
pub fn log_len() -> usize {
    LOG.lock().unwrap().len()
}
pub fn reset_scripts() {
    *VERSIONS.lock().unwrap() = Some(HashMap::new());
    LOG.lock().unwrap().clear();
}

/// Key 9 is the "large" key: its value carries 200 bytes of padding (for max_memory functions).
/// Key 8 grows: the first version is small, every later version (a refresh) is large.
pub fn value(fid: u32, k: u32, ver: u32) -> String {
    let mut s = format!("f{fid}k{k}v{ver}");
    if k == 9 || (k == 8 && ver >= 2) {
        s.push_str(&"#".repeat(200));
    }
    if k == 7 && ver >= 2 {
        s.push_str(&"+".repeat(10));
    }
    s.shrink_to_fit();
    s
}

pub fn body(fid: u32, k: u32) -> String {
    LOG.lock().unwrap().push(Ev::Exec { fid, k, thread: vsched::current_thread(), ver: 0 });
    value(fid, k, 0)
}

/// every execution for (fid, k) yields the next version
pub fn body_versioned(fid: u32, k: u32) -> String {
    let ver = {
        let mut g = VERSIONS.lock().unwrap();
        let m = g.get_or_insert_with(HashMap::new);
        let v = m.entry((fid, k)).or_insert(0);
        *v += 1;
        *v
    };
    LOG.lock().unwrap().push(Ev::Exec { fid, k, thread: vsched::current_thread(), ver });
    value(fid, k, ver)
}

/// outcome chosen by the explorer: 0 = Ok, 1 = Err
pub fn body_res(fid: u32, k: u32) -> Result<String, String> {
    let ok = vsched::choose(2, "outcome") == 0;
    LOG.lock().unwrap().push(Ev::Exec { fid, k, thread: vsched::current_thread(), ver: if ok { 0 } else { 1 } });
    if ok {
        Ok(value(fid, k, 0))
    } else {
        Err(format!("e{fid}k{k}"))
    }
}

/// verdict chosen by the explorer: 0 = true (cache it), 1 = false
pub fn cache_if_hook(fid: u32, key: &str, val: String) -> bool {
    let verdict = vsched::choose(2, "cache_if") == 0;
    LOG.lock().unwrap().push(Ev::CacheIf { fid, key: key.to_string(), val, verdict, thread: vsched::current_thread() });
    verdict
}

/// verdict chosen by the explorer: 0 = false (entry is fine), 1 = true (stale)
pub fn inval_on_hook(fid: u32, key: &str, val: String) -> bool {
    let verdict = vsched::choose(2, "invalidate_on") == 1;
    LOG.lock().unwrap().push(Ev::InvalOn { fid, key: key.to_string(), val, verdict, thread: vsched::current_thread() });
    verdict
}

// ---------------------------------------------------------------------------------------------
// a minimal executor: the generated futures only suspend at harness-controlled gates
// ---------------------------------------------------------------------------------------------

fn noop_raw() -> RawWaker {
    fn clone(_: *const ()) -> RawWaker {
        noop_raw()
    }
    fn noop(_: *const ()) {}
    static VT: RawWakerVTable = RawWakerVTable::new(clone, noop, noop, noop);
    RawWaker::new(std::ptr::null(), &VT)
}

pub fn noop_waker() -> Waker {
    unsafe { Waker::from_raw(noop_raw()) }
}

pub fn poll_once<F: Future + ?Sized>(f: Pin<&mut F>) -> Poll<F::Output> {
    let w = noop_waker();
    let mut cx = Context::from_waker(&w);
    f.poll(&mut cx)
}

/// Drive a future that never really waits (no gates closed): a `Pending` here is a harness error.
pub fn block_on<F: Future>(f: F) -> F::Output {
    let mut f = Box::pin(f);
    for _ in 0..1000 {
        if let Poll::Ready(v) = poll_once(f.as_mut()) {
            return v;
        }
    }
    vsched::machinery_failure("block_on: future stayed pending");
}

// ---------------------------------------------------------------------------------------------
// gates: await points inside generated async bodies that only the harness opens (E4)
// ---------------------------------------------------------------------------------------------

pub static GATE_OPEN: [std::sync::atomic::AtomicBool; 3] =
    [std::sync::atomic::AtomicBool::new(false), std::sync::atomic::AtomicBool::new(false), std::sync::atomic::AtomicBool::new(false)];
/// while set, every gate lets pass (an interloper's own body never waits)
pub static GATE_BYPASS: std::sync::atomic::AtomicBool = std::sync::atomic::AtomicBool::new(true);

pub struct Gate(pub usize);
impl Future for Gate {
    type Output = ();
    fn poll(self: Pin<&mut Self>, _cx: &mut Context<'_>) -> Poll<()> {
        use std::sync::atomic::Ordering::SeqCst;
        if GATE_BYPASS.load(SeqCst) || GATE_OPEN[self.0].load(SeqCst) {
            Poll::Ready(())
        } else {
            Poll::Pending
        }
    }
}

pub async fn gated_body(fid: u32, k: u32, gates: usize) -> String {
    for g in 0..gates {
        Gate(g).await;
    }
    body(fid, k)
}

pub fn gates_reset() {
    use std::sync::atomic::Ordering::SeqCst;
    for g in &GATE_OPEN {
        g.store(false, SeqCst);
    }
    GATE_BYPASS.store(true, SeqCst);
}

// ---------------------------------------------------------------------------------------------
// observation through the public API
// ---------------------------------------------------------------------------------------------

/// Keys a registered global/async cache currently holds: a never-matching predicate sees them all.
pub fn list_keys(name: &str) -> Option<Vec<String>> {
    let seen = std::cell::RefCell::new(Vec::new());
    let found = cachelito_core::invalidate_with(name, |k| {
        seen.borrow_mut().push(k.to_string());
        false
    });
    if !found {
        return None;
    }
    let mut v = seen.into_inner();
    v.sort();
    Some(v)
}

pub fn stats_of(name: &str) -> Option<(u64, u64)> {
    cachelito_core::stats_registry::get(name).map(|s| (s.hits(), s.misses()))
}

/// Empty one cache through the public API and verify it (DESIGN §3.4). `invalidate_cache` (only
/// registered for functions that declare tags/events/dependencies) clears store *and* queue, so
/// it also removes queue entries that an execution aborted by a deadlock may have orphaned;
/// `invalidate_with` can only remove keys that are still in the store.
pub fn reset_cache(f: &FnInfo) -> Result<(), String> {
    if f.has_meta() && !cachelito_core::invalidate_cache(f.name) {
        return Err(format!("{} declares metadata but has no clear callback registered", f.name));
    }
    cachelito_core::invalidate_with(f.name, |_| true);
    cachelito_core::stats_registry::reset(f.name);
    match list_keys(f.name) {
        Some(v) if !v.is_empty() => Err(format!("reset of {} left keys {v:?}", f.name)),
        _ => Ok(()),
    }
}
