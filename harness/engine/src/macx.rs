//! E2 `macx` — bounded-exhaustive history enumeration over the generated functions (L1,
//! DESIGN §5.2): every operation sequence up to a depth over a small alphabet, with every
//! environment answer (Ok/Err outcome, predicate verdict, random victim) as a further branch.
//! State is observed only through the public API: return value, execution / consultation
//! log, `stats_registry`, and the key set listed by a never-matching `invalidate_with`.
use crate::common::*;
use crate::corpus_gen::FUNCS;
use crate::json::J;
use crate::l1::{self, Ev, FnInfo, Ret};
use std::collections::{BTreeMap, BTreeSet, HashSet};

const NS: u64 = 1_000_000_000;
const START_NS: u64 = 1000 * NS;

#[derive(Clone, Debug, PartialEq)]
pub enum MOp {
    Call(u32),
    /// call of the second function of the pair (C03 interleaves two functions sharing key strings)
    Call2(u32),
    Tick,
    /// invalidate_with(name, key in mask)
    InvWith(u32),
    /// invalidate_all_with((name, key) -> name == this && key in mask)
    InvAllWith(u32),
    StatsReset,
    StatsReset2,
    /// call of the i-th function of the suite's group
    CallN(usize, u32),
    /// group invalidation: kind in {tag, event, dep, cache}, argument
    Req(&'static str, String),
    /// E4: create the future of f(k) in a slot without polling it
    PStart(usize, u32),
    /// poll the pending call once
    PPoll(usize),
    /// open gate g of the gated bodies
    POpen(usize),
    /// drop the pending call
    PDrop(usize),
    /// C14: the call is made by worker thread t of this history
    CallOn(usize, u32),
}

impl MOp {
    pub fn render(&self) -> String {
        match self {
            MOp::Call(k) => format!("call {k}"),
            MOp::Call2(k) => format!("call2 {k}"),
            MOp::Tick => "tick".into(),
            MOp::InvWith(m) => format!("invalidate_with {m}"),
            MOp::InvAllWith(m) => format!("invalidate_all_with {m}"),
            MOp::StatsReset => "stats_reset".into(),
            MOp::StatsReset2 => "stats_reset2".into(),
            MOp::CallN(i, k) => format!("calln {i} {k}"),
            MOp::Req(kind, a) => format!("req {kind} {a}"),
            MOp::PStart(s, k) => format!("pstart {s} {k}"),
            MOp::PPoll(s) => format!("ppoll {s}"),
            MOp::POpen(g) => format!("popen {g}"),
            MOp::PDrop(s) => format!("pdrop {s}"),
            MOp::CallOn(t, k) => format!("callon {t} {k}"),
        }
    }
    pub fn parse(s: &str) -> Option<MOp> {
        let p: Vec<&str> = s.split_whitespace().collect();
        let n = |i: usize| -> Option<u32> { p.get(i)?.parse().ok() };
        Some(match p.first().copied()? {
            "call" => MOp::Call(n(1)?),
            "call2" => MOp::Call2(n(1)?),
            "tick" => MOp::Tick,
            "invalidate_with" => MOp::InvWith(n(1)?),
            "invalidate_all_with" => MOp::InvAllWith(n(1)?),
            "stats_reset" => MOp::StatsReset,
            "stats_reset2" => MOp::StatsReset2,
            "calln" => MOp::CallN(n(1)? as usize, n(2)?),
            "pstart" => MOp::PStart(n(1)? as usize, n(2)?),
            "ppoll" => MOp::PPoll(n(1)? as usize),
            "popen" => MOp::POpen(n(1)? as usize),
            "pdrop" => MOp::PDrop(n(1)? as usize),
            "callon" => MOp::CallOn(n(1)? as usize, n(2)?),
            "req" => MOp::Req(
                match *p.get(1)? {
                    "tag" => "tag",
                    "event" => "event",
                    "dep" => "dep",
                    _ => "cache",
                },
                p.get(2)?.to_string(),
            ),
            _ => return None,
        })
    }
}

#[derive(Clone, Debug)]
pub struct MFinding {
    pub property: &'static str,
    pub monitor: String,
    pub detail: String,
}

#[derive(Clone, Debug, PartialEq)]
struct GEntry {
    ver: u32,
    is_err: bool,
    born_ns: u64,
    stored_seq: u64,
    last_use: u64,
}

/// Reference bookkeeping for one function. For global/async functions presence is re-read from
/// the key listing after every step; for thread scope it is modelled where the history
/// determines it (no pressure, or FIFO/LRU with an entry limit).
pub struct FnGhost {
    pub f: &'static FnInfo,
    present: BTreeMap<u32, GEntry>,
    lookups: u64,
    hits: u64,
    seq: u64,
    /// thread scope only: can presence be modelled exactly?
    modelled: bool,
}

fn key_of(s: &str) -> u32 {
    s.parse().unwrap_or(u32::MAX)
}

fn mask_has(mask: u32, k: u32) -> bool {
    k < 32 && mask & (1 << k) != 0
}

impl FnGhost {
    pub fn new(f: &'static FnInfo) -> FnGhost {
        // thread scope has no key listing: the ghost predicts evictions itself where the policy is FIFO / LRU (entry limit and
        // memory budget alike: the oldest / least recently used entry goes first)
        let fifo_lru = matches!(f.pol(), Pol::Fifo | Pol::Lru);
        let modelled = f.flavour != Flavour::Thread || ((f.mem.is_none() || fifo_lru) && (f.limit.is_none() || fifo_lru));
        FnGhost { f, present: BTreeMap::new(), lookups: 0, hits: 0, seq: 0, modelled }
    }

    fn listed(&self) -> Option<BTreeSet<u32>> {
        if self.f.flavour == Flavour::Thread {
            None
        } else {
            // (a function without arguments has the single key "": shown as key 0)
            Some(l1::list_keys(self.f.name).unwrap_or_default().iter().map(|s| if self.f.zero_arg && s.is_empty() { 0 } else { key_of(s) }).collect())
        }
    }

    fn footprint_of(&self, k: u32, ver: u32, is_err: bool) -> usize {
        if is_err {
            return std::mem::size_of::<Result<String, String>>() + format!("e{}k{k}", self.f.id).len();
        }
        self.footprint(k, ver)
    }

    fn footprint(&self, k: u32, ver: u32) -> usize {
        let payload = l1::value(self.f.id, k, ver).len();
        if self.f.is_result {
            std::mem::size_of::<Result<String, String>>() + payload
        } else {
            std::mem::size_of::<String>() + payload
        }
    }

    /// (must be expired, must be served) for the entry of `k` at time `now`
    fn expiry(&self, k: u32, now: u64) -> (bool, bool) {
        match (self.f.ttl, self.present.get(&k)) {
            (Some(t), Some(e)) => {
                let age = now - e.born_ns;
                if self.f.flavour == Flavour::Async {
                    (age >= t * NS, age + NS < t * NS)
                } else {
                    (age >= t * NS, age < t * NS)
                }
            }
            (None, Some(_)) => (false, true),
            _ => (false, false),
        }
    }
}

/// A long-lived OS thread that executes calls on request (one per thread of a partitioned history).
pub struct Worker {
    tx: std::sync::mpsc::Sender<(&'static FnInfo, u32)>,
    rx: std::sync::mpsc::Receiver<Result<Ret, String>>,
    handle: Option<std::thread::JoinHandle<()>>,
}

impl Worker {
    pub fn spawn() -> Worker {
        let (tx, rx_w) = std::sync::mpsc::channel::<(&'static FnInfo, u32)>();
        let (tx_w, rx) = std::sync::mpsc::channel();
        let handle = std::thread::spawn(move || {
            while let Ok((f, k)) = rx_w.recv() {
                let r = std::panic::catch_unwind(|| (f.call)(k)).map_err(|p| vsched::describe_panic(&*p));
                if tx_w.send(r).is_err() {
                    break;
                }
            }
        });
        Worker { tx, rx, handle: Some(handle) }
    }
    pub fn call(&self, f: &'static FnInfo, k: u32) -> Result<Ret, String> {
        self.tx.send((f, k)).map_err(|e| e.to_string())?;
        self.rx.recv().map_err(|e| e.to_string())?
    }
}

impl Drop for Worker {
    fn drop(&mut self) {
        let (dead, _) = std::sync::mpsc::channel();
        self.tx = dead;
        if let Some(h) = self.handle.take() {
            let _ = h.join();
        }
    }
}

static POOL: std::sync::Mutex<Vec<Worker>> = std::sync::Mutex::new(Vec::new());

impl Drop for Machine {
    fn drop(&mut self) {
        if self.g.f.flavour != Flavour::Thread {
            POOL.lock().unwrap().extend(self.workers.drain(..));
        }
    }
}

pub struct StepOut {
    pub findings: Vec<MFinding>,
    pub obs: String,
    pub panicked: bool,
}

pub struct Machine {
    pub g: FnGhost,
    pub g2: Option<FnGhost>,
    pub gx: Vec<FnGhost>,
    pub now: u64,
    inval_seen: bool,
    group_inval_seen: bool,
    slots: Vec<Option<PendingCall>>,
    pub pending_seen: bool,
    /// C14 partitions: worker threads (fresh per history) and, for thread scope, one ghost per worker
    workers: Vec<Worker>,
    worker_ghosts: Vec<FnGhost>,
    /// per worker thread: the keys it called and what each call did (thread-scope functions)
    worker_trail: Vec<Vec<(u32, String)>>,
}

pub struct PendingCall {
    k: u32,
    fut: l1::BoxFut,
    polled: bool,
    done: bool,
}

/// functions called at least once in this process (= registered in the registries)
pub static REGISTERED: std::sync::Mutex<BTreeSet<u32>> = std::sync::Mutex::new(BTreeSet::new());
/// (function, key sequence) -> what those calls do on a thread of their own
static SOLO: std::sync::Mutex<BTreeMap<(u32, Vec<u32>), Vec<String>>> = std::sync::Mutex::new(BTreeMap::new());

fn req_matches(kind: &str, arg: &str, f: &FnInfo) -> bool {
    f.has_meta()
        && match kind {
            "tag" => f.tags.contains(&arg),
            "event" => f.events.contains(&arg),
            "dep" => f.deps.contains(&arg),
            _ => f.name == arg,
        }
}

impl Machine {
    pub fn new(f: &'static FnInfo, f2: Option<&'static FnInfo>, group: &[&'static FnInfo], wash: bool) -> Result<Machine, String> {
        vsched::clock_freeze(START_NS);
        for x in std::iter::once(f).chain(f2).chain(group.iter().copied()) {
            if x.flavour != Flavour::Thread {
                l1::reset_cache(x)?;
                if wash {
                    // re-store every key of the alphabet and invalidate it again: removes queue
                    // entries a defective clear may have orphaned in an earlier history
                    for k in 1..=3 {
                        let _ = (x.call)(k);
                    }
                    l1::reset_cache(x)?;
                }
            }
        }
        l1::reset_scripts();
        l1::gates_reset();
        Ok(Machine { g: FnGhost::new(f), g2: f2.map(FnGhost::new), gx: group.iter().map(|x| FnGhost::new(x)).collect(), now: START_NS, inval_seen: false, group_inval_seen: false, slots: vec![None, None], pending_seen: false, workers: Vec::new(), worker_ghosts: Vec::new(), worker_trail: Vec::new() })
    }

    fn attribute_after_invalidation(&self, out: &mut StepOut) {
        if self.pending_seen {
            // C20: while a call is suspended (or after it was dropped) everything else behaves normally
            let more: Vec<MFinding> = out.findings.iter().filter(|f| f.property != "C20").map(|f| MFinding { property: "C20", monitor: format!("other-operation-misbehaved/{}/{}", f.property, f.monitor), detail: f.detail.clone() }).collect();
            out.findings.extend(more);
        }
        let extra: Vec<MFinding> = out
            .findings
            .iter()
            .filter(|f| matches!(f.property, "C04" | "C05" | "C03" | "C07") && !f.monitor.starts_with("bookkeeping"))
            .flat_map(|f| {
                let mut v = Vec::new();
                if self.inval_seen {
                    v.push(MFinding { property: "C13", monitor: format!("bookkeeping-after-invalidation/{}", f.monitor), detail: f.detail.clone() });
                }
                if self.group_inval_seen {
                    v.push(MFinding { property: "C12", monitor: format!("bookkeeping-after-group-invalidation/{}", f.monitor), detail: f.detail.clone() });
                }
                v
            })
            .collect();
        out.findings.extend(extra);
    }

    /// Thread-scope isolation, judged against the implementation itself: the calls one thread made in a
    /// history shared with other threads must do exactly what the same calls do on a thread that runs
    /// alone (a fresh OS thread is a fresh thread-scope cache). No model of the eviction policy involved.
    pub fn solo_check(&mut self) -> Vec<MFinding> {
        let f = self.g.f;
        let mut out = Vec::new();
        if self.worker_trail.iter().filter(|t| !t.is_empty()).count() < 2 {
            return out;
        }
        for (t, trail) in self.worker_trail.iter().enumerate() {
            if trail.is_empty() {
                continue;
            }
            // the reference trail of a key sequence is computed once per process (first use) and reused:
            // isolated code gives the same answer every time, so reuse cannot raise a false alarm
            let keys: Vec<u32> = trail.iter().map(|x| x.0).collect();
            let cached = SOLO.lock().unwrap().get(&(f.id, keys.clone())).cloned();
            let reference = match cached {
                Some(r) => r,
                None => {
                    let w = Worker::spawn();
                    let mut r = Vec::new();
                    for k in &keys {
                        let k = &(if f.zero_arg { 0 } else { *k });
                        l1::log_take();
                        let x = w.call(f, *k);
                        let executed = l1::log_take().iter().any(|e| matches!(e, Ev::Exec { .. }));
                        r.push(match x {
                            Ok(x) => format!("call {k}={}{}", x.render(), if executed { "!" } else { "" }),
                            Err(_) => "panic".to_string(),
                        });
                    }
                    SOLO.lock().unwrap().insert((f.id, keys.clone()), r.clone());
                    r
                }
            };
            for (i, ((k, seen), alone)) in trail.iter().zip(reference.iter()).enumerate() {
                if alone != seen {
                    out.push(MFinding {
                        property: "C14",
                        monitor: "thread-scope-not-isolated/differs-from-running-alone".into(),
                        detail: format!("{}: call #{} of thread T{t} (key {k}) did `{seen}` in the shared history but `{alone}` when the thread's calls {:?} run alone ('!' = body executed)", f.fn_name, i + 1, trail.iter().map(|x| x.0).collect::<Vec<_>>()),
                    });
                    break;
                }
            }
        }
        out
    }

    pub fn step(&mut self, op: &MOp) -> StepOut {
        let mut out = StepOut { findings: Vec::new(), obs: String::new(), panicked: false };
        match op {
            MOp::Tick => {
                vsched::clock_advance(NS);
                self.now += NS;
                out.obs = "tick".into();
            }
            MOp::Call(k) => {
                let now = self.now;
                call_step(&mut self.g, *k, now, &mut out);
                self.attribute_after_invalidation(&mut out);
            }
            MOp::Call2(k) => {
                let now = self.now;
                if let Some(g2) = self.g2.as_mut() {
                    call_step(g2, *k, now, &mut out);
                }
                self.attribute_after_invalidation(&mut out);
            }
            MOp::CallOn(t, k) => {
                let now = self.now;
                while self.workers.len() <= *t {
                    // thread scope: a fresh OS thread per history (a fresh cache); shared caches are emptied between
                    // histories, so their worker threads can be reused
                    let pooled = if self.g.f.flavour == Flavour::Thread { None } else { POOL.lock().unwrap().pop() };
                    self.workers.push(pooled.unwrap_or_else(Worker::spawn));
                    self.worker_ghosts.push(FnGhost::new(self.g.f));
                    self.worker_trail.push(Vec::new());
                }
                let thread_scope = self.g.f.flavour == Flavour::Thread;
                let before = out.findings.len();
                if thread_scope {
                    // each thread has its own cache: judged against that thread's own ghost
                    call_step_on(&mut self.worker_ghosts[*t], *k, now, &mut out, Some(&self.workers[*t]));
                } else {
                    // global / async: one shared cache, whichever thread calls
                    call_step_on(&mut self.g, *k, now, &mut out, Some(&self.workers[*t]));
                }
                if thread_scope {
                    self.worker_trail[*t].push((*k, out.obs.clone()));
                }
                out.obs = format!("T{t}:{}", out.obs);
                // whatever the sequential monitors object to in a history that is merely spread over threads is a C14 matter
                let more: Vec<MFinding> = out.findings[before..]
                    .iter()
                    .filter(|f| f.property != "C14")
                    .map(|f| MFinding { property: "C14", monitor: format!("{}/{}/{}", if thread_scope { "thread-scope-not-isolated" } else { "shared-cache-differs-across-threads" }, f.property, f.monitor), detail: f.detail.clone() })
                    .collect();
                out.findings.extend(more);
            }
            MOp::PStart(slot, k) => {
                if self.slots[*slot].is_some() || self.g.f.spawn.is_none() {
                    out.obs = "noop".into();
                    return out;
                }
                self.pending_seen = true;
                let pre = (self.g.listed(), l1::stats_of(self.g.f.name));
                l1::log_take();
                l1::GATE_BYPASS.store(false, std::sync::atomic::Ordering::SeqCst);
                let fut = (self.g.f.spawn.unwrap())(*k);
                l1::GATE_BYPASS.store(true, std::sync::atomic::Ordering::SeqCst);
                let post = (self.g.listed(), l1::stats_of(self.g.f.name));
                if pre != post || l1::log_len() != 0 {
                    out.findings.push(MFinding { property: "C20", monitor: "creating-the-future-touched-the-cache".into(), detail: format!("{:?} -> {:?}", pre, post) });
                }
                self.slots[*slot] = Some(PendingCall { k: *k, fut, polled: false, done: false });
                out.obs = format!("pstart {slot} {k}");
            }
            MOp::POpen(gi) => {
                l1::GATE_OPEN[*gi].store(true, std::sync::atomic::Ordering::SeqCst);
                out.obs = format!("popen {gi}");
            }
            MOp::PDrop(slot) => {
                let Some(p) = self.slots[*slot].take() else {
                    out.obs = "noop".into();
                    return out;
                };
                let pre = (self.g.listed(), l1::stats_of(self.g.f.name));
                l1::log_take();
                drop(p);
                let post = (self.g.listed(), l1::stats_of(self.g.f.name));
                if pre != post || l1::log_len() != 0 {
                    out.findings.push(MFinding { property: "C20", monitor: "dropping-a-pending-call-touched-the-cache".into(), detail: format!("{:?} -> {:?}", pre, post) });
                }
                out.obs = format!("pdrop {slot}");
            }
            MOp::PPoll(slot) => {
                let now = self.now;
                let f = self.g.f;
                let Some(p) = self.slots[*slot].as_mut() else {
                    out.obs = "noop".into();
                    return out;
                };
                if p.done {
                    out.obs = "noop".into();
                    return out;
                }
                let k = p.k;
                let first = !p.polled;
                let pre = self.g.listed().unwrap_or_default();
                self.g.present.retain(|kk, _| pre.contains(kk));
                let had = self.g.present.get(&k).cloned();
                let (must_expire, must_serve) = self.g.expiry(k, now);
                let gates_open = (0..f.gates).all(|gi| l1::GATE_OPEN[gi].load(std::sync::atomic::Ordering::SeqCst));
                let stats_pre = l1::stats_of(f.name);
                l1::log_take();
                l1::GATE_BYPASS.store(false, std::sync::atomic::Ordering::SeqCst);
                let r = std::panic::catch_unwind(std::panic::AssertUnwindSafe(|| l1::poll_once(p.fut.as_mut())));
                l1::GATE_BYPASS.store(true, std::sync::atomic::Ordering::SeqCst);
                p.polled = true;
                let evs = l1::log_take();
                let executed = evs.iter().any(|e| matches!(e, Ev::Exec { .. }));
                let r = match r {
                    Ok(r) => r,
                    Err(pn) => {
                        p.done = true;
                        out.panicked = true;
                        out.findings.push(MFinding { property: "C20", monitor: "poll-panicked".into(), detail: vsched::describe_panic(&*pn) });
                        out.obs = "ppoll=panic".into();
                        return out;
                    }
                };
                let post = self.g.listed().unwrap_or_default();
                let mut base = pre.clone();
                let mut hit = false;
                if first {
                    self.g.seq += 1;
                    self.g.lookups += 1;
                    if had.is_some() && must_expire {
                        base.remove(&k);
                        self.g.present.remove(&k);
                    }
                    hit = had.is_some() && !must_expire && (must_serve || matches!(r, std::task::Poll::Ready(_)) && !executed);
                    // invalidate_on: the entry that was found is shown to the check exactly once; "stale" sends the call into its body
                    if f.has_inval_on {
                        let io: Vec<&Ev> = evs.iter().filter(|e| matches!(e, Ev::InvalOn { .. })).collect();
                        if io.len() != usize::from(hit) {
                            out.findings.push(MFinding { property: "C20", monitor: "consultation-count".into(), detail: format!("{}({k}): invalidate_on consulted {} times on the first poll, usable entry present: {hit}", f.fn_name, io.len()) });
                        }
                        if hit {
                            self.g.hits += 1;
                            if let Some(e) = self.g.present.get_mut(&k) {
                                e.last_use = self.g.seq;
                            }
                            if io.iter().any(|e| matches!(e, Ev::InvalOn { verdict: true, .. })) {
                                // counted as a hit, but the call goes on like a miss
                                hit = false;
                            } else {
                                self.g.hits -= 1; // counted below
                            }
                        }
                    }
                    if hit {
                        self.g.hits += 1;
                        if let Some(e) = self.g.present.get_mut(&k) {
                            e.last_use = self.g.seq;
                        }
                    }
                }
                match &r {
                    std::task::Poll::Pending => {
                        if hit || (!first && gates_open) || (first && gates_open && !hit) && f.gates == 0 {
                            out.findings.push(MFinding { property: "C20", monitor: "call-did-not-complete".into(), detail: format!("{}({k}) stayed pending although nothing blocks it (entry usable: {hit}, gates open: {gates_open})", f.fn_name) });
                        }
                        if gates_open && !hit {
                            out.findings.push(MFinding { property: "C20", monitor: "call-did-not-complete".into(), detail: format!("{}({k}) stayed pending with every gate open", f.fn_name) });
                        }
                        if executed {
                            out.findings.push(MFinding { property: "C20", monitor: "result-produced-while-suspended".into(), detail: format!("{}({k}) ran past its await although the gate is closed", f.fn_name) });
                        }
                        if post != base {
                            out.findings.push(MFinding { property: "C20", monitor: "suspended-call-changed-the-cache".into(), detail: format!("{}({k}) suspended: keys {:?} -> {:?} (expected {:?})", f.fn_name, pre, post, base) });
                        }
                        out.obs = format!("ppoll {slot}=pending{:?}", post);
                    }
                    std::task::Poll::Ready(v) => {
                        p.done = true;
                        if *v != l1::value(f.id, k, 0) {
                            out.findings.push(MFinding { property: "C20", monitor: "wrong-value".into(), detail: format!("{}({k}) completed with {v}", f.fn_name) });
                        }
                        if hit {
                            if executed || post != base {
                                out.findings.push(MFinding { property: "C20", monitor: "served-call-misbehaved".into(), detail: format!("{}({k}) was served from the cache: body ran = {executed}, keys {:?} -> {:?}", f.fn_name, pre, post) });
                            }
                        } else {
                            if !gates_open {
                                out.findings.push(MFinding { property: "C20", monitor: "result-produced-while-suspended".into(), detail: format!("{}({k}) completed although a gate is closed", f.fn_name) });
                            }
                            if !executed {
                                out.findings.push(MFinding { property: "C20", monitor: "completed-without-running-the-body".into(), detail: format!("{}({k}) completed, no usable entry, body did not run", f.fn_name) });
                            }
                            // resumed: stores its result normally
                            let mut cand = base.clone();
                            cand.insert(k);
                            let expect_removed = f.limit.map_or(0, |n| cand.len().saturating_sub(n));
                            let removed = cand.difference(&post).count();
                            if !post.contains(&k) || removed != expect_removed || !post.is_subset(&cand) {
                                out.findings.push(MFinding { property: "C20", monitor: "resumed-call-did-not-store-normally".into(), detail: format!("{}({k}) resumed and completed: keys {:?} -> {:?} with limit {:?}", f.fn_name, pre, post, f.limit) });
                            }
                            // the store happens now, not when the call started: it is the most recent store / use
                            self.g.seq += 1;
                            self.g.present.insert(k, GEntry { ver: 0, is_err: false, born_ns: now, stored_seq: self.g.seq, last_use: self.g.seq });
                        }
                        out.obs = format!("ppoll {slot}=ready{}{:?}", if executed { "!" } else { "" }, post);
                    }
                }
                self.g.present.retain(|kk, _| post.contains(kk));
                let st = l1::stats_of(f.name);
                if st != Some((self.g.hits, self.g.lookups - self.g.hits)) {
                    out.findings.push(MFinding { property: "C20", monitor: "stats-mismatch".into(), detail: format!("{}: statistics {:?} (before the poll {:?}), performed lookups {} of which hits {}", f.name, st, stats_pre, self.g.lookups, self.g.hits) });
                }
            }
            MOp::CallN(i, k) => {
                let now = self.now;
                if let Some(g) = self.gx.get_mut(*i) {
                    call_step(g, *k, now, &mut out);
                }
                self.attribute_after_invalidation(&mut out);
            }
            MOp::Req(kind, arg) => {
                self.group_inval_seen = true;
                let before: Vec<Option<BTreeSet<u32>>> = self.gx.iter().map(|g| g.listed()).collect();
                let ret: usize = match *kind {
                    "tag" => cachelito_core::invalidate_by_tag(arg),
                    "event" => cachelito_core::invalidate_by_event(arg),
                    "dep" => cachelito_core::invalidate_by_dependency(arg),
                    _ => usize::from(cachelito_core::invalidate_cache(arg)),
                };
                let reg = REGISTERED.lock().unwrap().clone();
                let want = FUNCS.iter().filter(|f| reg.contains(&f.id) && f.flavour != Flavour::Thread && req_matches(kind, arg, f)).count();
                if ret != want {
                    out.findings.push(MFinding { property: "C12", monitor: format!("wrong-count/{kind}"), detail: format!("{} returned {ret}, {want} used caches match", op.render()) });
                }
                for (g, b) in self.gx.iter_mut().zip(before.iter()) {
                    let after = g.listed();
                    if req_matches(kind, arg, g.f) {
                        if after.as_ref().map_or(false, |a| !a.is_empty()) {
                            out.findings.push(MFinding { property: "C12", monitor: format!("matching-cache-not-emptied/{kind}"), detail: format!("{} left {:?} in {}", op.render(), after, g.f.name) });
                        }
                        g.present.clear();
                    } else if after != *b {
                        out.findings.push(MFinding { property: "C13", monitor: format!("non-matching-cache-touched/{kind}"), detail: format!("{} changed {} (tags {:?} events {:?} deps {:?}): {:?} -> {:?}", op.render(), g.f.name, g.f.tags, g.f.events, g.f.deps, b, after) });
                        out.findings.push(MFinding { property: "C12", monitor: format!("non-matching-cache-touched/{kind}"), detail: format!("{} changed {}: {:?} -> {:?}", op.render(), g.f.name, b, after) });
                    }
                }
                out.obs = format!("{}={ret}", op.render());
            }
            MOp::InvWith(mask) | MOp::InvAllWith(mask) => {
                self.inval_seen = true;
                let g = &mut self.g;
                let pre = g.listed();
                let pre2 = self.g2.as_ref().and_then(|g2| g2.listed());
                let m = *mask;
                let seen = std::cell::RefCell::new(Vec::<String>::new());
                let ret = if matches!(op, MOp::InvWith(_)) {
                    cachelito_core::invalidate_with(g.f.name, |key| {
                        seen.borrow_mut().push(key.to_string());
                        mask_has(m, key_of(key))
                    })
                    .to_string()
                } else {
                    let target = g.f.name;
                    cachelito_core::invalidate_all_with(|name, key| {
                        if name == target {
                            seen.borrow_mut().push(key.to_string());
                        }
                        name == target && mask_has(m, key_of(key))
                    })
                    .to_string()
                };
                let post = g.listed();
                if let (Some(pre), Some(post)) = (&pre, &post) {
                    let want: BTreeSet<u32> = pre.iter().copied().filter(|k| !mask_has(m, *k)).collect();
                    if *post != want {
                        out.findings.push(MFinding { property: "C13", monitor: "wrong-keys-removed".into(), detail: format!("{} with mask {m:#b}: had {:?}, now {:?}, expected {:?}", op.render(), pre, post, want) });
                    }
                    // (which keys the predicate was shown is not part of the property: only what was removed)
                    let _ = &seen;
                    g.present.retain(|k, _| post.contains(k));
                }
                if let Some(g2) = self.g2.as_ref() {
                    if pre2 != g2.listed() {
                        out.findings.push(MFinding { property: "C13", monitor: "bystander-changed".into(), detail: format!("{} on {} changed {}: {:?} -> {:?}", op.render(), g.f.name, g2.f.name, pre2, g2.listed()) });
                    }
                }
                out.obs = format!("{}={ret}", op.render());
                if self.pending_seen {
                    let more: Vec<MFinding> = out.findings.iter().filter(|f| f.property != "C20").map(|f| MFinding { property: "C20", monitor: format!("other-operation-misbehaved/{}/{}", f.property, f.monitor), detail: f.detail.clone() }).collect();
                    out.findings.extend(more);
                }
            }
            MOp::StatsReset | MOp::StatsReset2 => {
                let (a, b) = if matches!(op, MOp::StatsReset) { (Some(&mut self.g), self.g2.as_ref()) } else { (self.g2.as_mut(), Some(&self.g)) };
                if let Some(a) = a {
                    let other_before = b.and_then(|b| l1::stats_of(b.f.name));
                    let r = cachelito_core::stats_registry::reset(a.f.name);
                    a.lookups = 0;
                    a.hits = 0;
                    if a.f.flavour != Flavour::Thread {
                        if !r || l1::stats_of(a.f.name) != Some((0, 0)) {
                            out.findings.push(MFinding { property: "C15", monitor: "reset-ineffective".into(), detail: format!("reset({}) returned {r}, stats now {:?}", a.f.name, l1::stats_of(a.f.name)) });
                        }
                        if let Some(b) = b {
                            if l1::stats_of(b.f.name) != other_before {
                                out.findings.push(MFinding { property: "C15", monitor: "reset-touched-other-cache".into(), detail: format!("reset({}) changed {} from {:?} to {:?}", a.f.name, b.f.name, other_before, l1::stats_of(b.f.name)) });
                            }
                        }
                    }
                    out.obs = format!("reset={r}");
                }
            }
        }
        out
    }
}

fn call_step(g: &mut FnGhost, k: u32, now: u64, out: &mut StepOut) {
    call_step_on(g, k, now, out, None)
}

/// `worker`: run the call on that long-lived OS thread instead of the calling one (C14 partitions)
fn call_step_on(g: &mut FnGhost, k: u32, now: u64, out: &mut StepOut, worker: Option<&Worker>) {
    let f = g.f;
    let fam = f.family;
    let k = if f.zero_arg { 0 } else { k };
    let first_finding = out.findings.len();
    let pre_listed = g.listed();
    if let Some(pl) = &pre_listed {
        // presence is what the cache physically holds
        g.present.retain(|kk, _| pl.contains(kk));
    }
    let tracked = pre_listed.is_some() || g.modelled;
    let had = g.present.get(&k).cloned();
    let (must_expire, must_serve) = g.expiry(k, now);
    l1::log_take();
    let r = match worker {
        Some(w) => w.call(f, k),
        None => std::panic::catch_unwind(|| (f.call)(k)).map_err(|p| vsched::describe_panic(&*p)),
    };
    let evs = l1::log_take();
    let r = match r {
        Ok(r) => r,
        Err(p) => {
            out.panicked = true;
            out.findings.push(MFinding { property: "C16", monitor: "panic".into(), detail: format!("{}({k}) panicked: {p}", f.fn_name) });
            out.obs = "panic".into();
            return;
        }
    };
    g.seq += 1;
    g.lookups += 1;
    let execs: Vec<&Ev> = evs.iter().filter(|e| matches!(e, Ev::Exec { .. })).collect();
    let executed = !execs.is_empty();
    let exec_ver = execs.first().map(|e| if let Ev::Exec { ver, .. } = e { *ver } else { 0 }).unwrap_or(0);
    let ci: Vec<&Ev> = evs.iter().filter(|e| matches!(e, Ev::CacheIf { .. })).collect();
    let io: Vec<&Ev> = evs.iter().filter(|e| matches!(e, Ev::InvalOn { .. })).collect();
    let post_listed = g.listed();
    let key_str = k.to_string();
    out.obs = format!("call {k}={}{}", r.render(), if executed { "!" } else { "" });
    if execs.len() > 1 {
        out.findings.push(MFinding { property: "C03", monitor: "body-ran-twice".into(), detail: format!("{}({k}) ran its body {} times in one call", f.fn_name, execs.len()) });
    }
    // ---------------- values (C01) and Err-never-served (C09)
    let prop_value: &'static str = match fam {
        "result" => "C09",
        "cache_if" => "C10",
        "inval_on" => "C11",
        _ => "C01",
    };
    match &r {
        Ret::Plain(s) => {
            let want_ver = if f.versioned {
                if executed {
                    exec_ver
                } else {
                    had.as_ref().map_or(u32::MAX, |e| e.ver)
                }
            } else {
                0
            };
            if *s != l1::value(f.id, k, want_ver) {
                out.findings.push(MFinding { property: if f.versioned { "C11" } else { "C01" }, monitor: "wrong-value".into(), detail: format!("{}({k}) returned {s}, expected {}", f.fn_name, l1::value(f.id, k, want_ver)) });
            }
        }
        Ret::Res(Ok(s)) => {
            if *s != l1::value(f.id, k, 0) {
                out.findings.push(MFinding { property: "C01", monitor: "wrong-value".into(), detail: format!("{}({k}) returned Ok({s})", f.fn_name) });
            }
            if executed && exec_ver != 0 {
                out.findings.push(MFinding { property: prop_value, monitor: "outcome-changed".into(), detail: format!("{}({k}): body returned Err, caller got Ok", f.fn_name) });
            }
        }
        Ret::Res(Err(e)) => {
            if *e != format!("e{}k{k}", f.id) {
                out.findings.push(MFinding { property: "C01", monitor: "wrong-value".into(), detail: format!("{}({k}) returned Err({e})", f.fn_name) });
            }
            if !executed && !f.has_cache_if {
                out.findings.push(MFinding { property: "C09", monitor: "err-served-from-cache".into(), detail: format!("{}({k}) returned Err without running the body", f.fn_name) });
            }
            if executed && exec_ver != 1 {
                out.findings.push(MFinding { property: prop_value, monitor: "outcome-changed".into(), detail: format!("{}({k}): body returned Ok, caller got Err", f.fn_name) });
            }
        }
    }
    // ---------------- was the lookup a hit? (entry present and unexpired)
    // ---------------- invalidate_on (C11)
    let mut stale = false;
    if f.has_inval_on && tracked {
        let expect_consult = had.is_some() && !must_expire && (must_serve || !io.is_empty());
        if io.len() != usize::from(expect_consult) {
            out.findings.push(MFinding { property: "C11", monitor: "consultation-count".into(), detail: format!("{}({k}): invalidate_on consulted {} times, entry present={} (expected {})", f.fn_name, io.len(), had.is_some(), usize::from(expect_consult)) });
        }
        if let Some(Ev::InvalOn { key, val, verdict, .. }) = io.first() {
            stale = *verdict;
            let cached = had
                .as_ref()
                .map(|e| {
                    if f.is_result && e.is_err {
                        format!("{:?}", Err::<String, String>(format!("e{}k{k}", f.id)))
                    } else if f.is_result {
                        format!("{:?}", Ok::<String, String>(l1::value(f.id, k, 0)))
                    } else {
                        format!("{:?}", l1::value(f.id, k, e.ver))
                    }
                })
                .unwrap_or_default();
            if *key != key_str || *val != cached {
                out.findings.push(MFinding { property: "C11", monitor: "consulted-with-wrong-arguments".into(), detail: format!("{}({k}): invalidate_on saw ({key}, {val}), cached entry is ({key_str}, {cached})", f.fn_name) });
            }
            if *verdict && !executed {
                out.findings.push(MFinding { property: "C11", monitor: "stale-entry-served".into(), detail: format!("{}({k}): check said stale, body did not run", f.fn_name) });
            }
            if !*verdict && executed {
                out.findings.push(MFinding { property: "C11", monitor: "valid-entry-recomputed".into(), detail: format!("{}({k}): check said valid, body ran anyway", f.fn_name) });
            }
        }
    } else if f.has_inval_on {
        stale = io.iter().any(|e| matches!(e, Ev::InvalOn { verdict: true, .. }));
    }
    // ---------------- executed <=> no usable entry
    if tracked && !f.has_inval_on {
        let usable = had.is_some() && !must_expire;
        if usable && must_serve && executed {
            let (p, m): (&'static str, &str) = if f.ttl.is_some() {
                ("C06", "unexpired-not-served")
            } else {
                match fam {
                    "result" => ("C09", "ok-not-reused"),
                    "cache_if" => ("C10", "accepted-result-not-reused"),
                    _ => ("C03", "recomputed"),
                }
            };
            out.findings.push(MFinding { property: p, monitor: m.into(), detail: format!("{}({k}) ran its body although an unexpired entry was stored", f.fn_name) });
            if p == "C06" && matches!(fam, "result" | "cache_if") {
                // also a matter of the family's own property: the stored Ok / accepted result was not reused
                let (p2, m2): (&'static str, &str) = if fam == "result" { ("C09", "ok-not-reused") } else { ("C10", "accepted-result-not-reused") };
                out.findings.push(MFinding { property: p2, monitor: m2.into(), detail: format!("{}({k}) ran its body although an unexpired entry was stored", f.fn_name) });
            }
        }
        if !executed && (had.is_none() || must_expire) {
            let (p, m): (&'static str, &str) = if must_expire { ("C06", "expired-served") } else { ("C01", "served-without-entry") };
            out.findings.push(MFinding { property: p, monitor: m.into(), detail: format!("{}({k}) did not run its body although no usable entry existed (entry present: {}, expired: {must_expire})", f.fn_name, had.is_some()) });
            if f.flavour == Flavour::Thread && f.mem.is_some() && !must_expire {
                // thread scope cannot be listed: an entry the memory budget had to evict (or never admit) shows by being served
                out.findings.push(MFinding { property: "C05", monitor: "entry-survived-the-memory-budget".into(), detail: format!("{}({k}) was served from the cache although max_memory {:?} cannot hold that entry next to the ones stored since", f.fn_name, f.mem) });
            }
        }
    }
    // ---------------- cache_if (C10): consulted once per execution with this call's key and result
    let mut accepted = true;
    if f.has_cache_if {
        if ci.len() != usize::from(executed) {
            out.findings.push(MFinding { property: "C10", monitor: "consultation-count".into(), detail: format!("{}({k}): cache_if consulted {} times, body executions {}", f.fn_name, ci.len(), execs.len()) });
        }
        if let Some(Ev::CacheIf { key, val, verdict, .. }) = ci.first() {
            accepted = *verdict;
            let want = match &r {
                Ret::Plain(s) => format!("{s:?}"),
                Ret::Res(x) => format!("{x:?}"),
            };
            if *key != key_str || *val != want {
                out.findings.push(MFinding { property: "C10", monitor: "consulted-with-wrong-arguments".into(), detail: format!("{}({k}): cache_if saw ({key}, {val}), the call's key/result are ({key_str}, {want})", f.fn_name) });
            }
        }
    }
    // ---------------- what should have been stored
    let returned_err = matches!(r, Ret::Res(Err(_)));
    let should_store = executed
        && if f.has_cache_if {
            // sync Result: accepted and Ok; async: the predicate alone decides
            accepted && (!returned_err || f.flavour == Flavour::Async)
        } else {
            !returned_err
        };
    let may_store = should_store; // (no freedom today; kept separate for clarity)
    let new_ver = if f.versioned { exec_ver } else { 0 };
    let oversized = f.mem.map_or(false, |m| g.footprint_of(k, new_ver, returned_err) > m);
    let store_prop: &'static str = match fam {
        "result" => "C09",
        "cache_if" => "C10",
        "inval_on" => "C11",
        _ => {
            if f.limit.is_none() && f.ttl.is_none() && f.mem.is_none() {
                "C03"
            } else {
                "C04"
            }
        }
    };
    if let (Some(pre), Some(post)) = (&pre_listed, &post_listed) {
        // the expired entry a lookup touched is purged
        let mut base: BTreeSet<u32> = pre.clone();
        if had.is_some() && must_expire {
            base.remove(&k);
            if post.contains(&k) && !(executed && should_store) {
                out.findings.push(MFinding { property: "C06", monitor: "expired-not-purged".into(), detail: format!("{}({k}): expired entry still listed after the call", f.fn_name) });
            }
        }
        if !executed || !may_store {
            // nothing may change (C09: an Err changes neither the key set nor evicts anybody)
            if *post != base {
                let mon = if executed { if returned_err { "err-changed-cache" } else { "rejected-result-changed-cache" } } else { "hit-changed-cache" };
                out.findings.push(MFinding { property: if executed { store_prop } else { "C04" }, monitor: mon.into(), detail: format!("{}({k}) stored nothing but keys went {:?} -> {:?}", f.fn_name, pre, post) });
            }
        } else {
            // stored: k present unless oversized or (sync, hit-counting policy) the newcomer lost the eviction
            let newcomer_may_lose = f.flavour != Flavour::Async && (f.pol().counts_hits() || f.pol() == Pol::Random) && (f.limit.is_some() || f.mem.is_some());
            if !post.contains(&k) && !oversized && !newcomer_may_lose {
                let mon = match fam {
                    "result" => "ok-not-stored",
                    "cache_if" => "accepted-result-not-stored",
                    "inval_on" => "refreshed-entry-not-stored",
                    _ => "result-not-stored",
                };
                out.findings.push(MFinding { property: store_prop, monitor: mon.into(), detail: format!("{}({k}) should have stored its result; keys {:?} -> {:?}", f.fn_name, pre, post) });
            }
            if oversized && post.contains(&k) {
                out.findings.push(MFinding { property: "C05", monitor: "oversized-cached".into(), detail: format!("{}({k}): value of {} bytes listed with max_memory {:?}", f.fn_name, g.footprint_of(k, new_ver, returned_err), f.mem) });
            }
            let mut cand = base.clone();
            cand.insert(k);
            for extra in post.difference(&cand) {
                out.findings.push(MFinding { property: "C01", monitor: "phantom-entry".into(), detail: format!("{}({k}) made key {extra} appear", f.fn_name) });
            }
            // entries that were already expired when this call stored (not the stored key itself): an
            // implementation may purge them at any time; that is neither a victim nor a needless eviction
            let stale: BTreeSet<u32> = cand
                .difference(post)
                .copied()
                .filter(|kk| {
                    *kk != k
                        && match (f.ttl, g.present.get(kk)) {
                            (Some(t), Some(e)) => now - e.born_ns >= t * NS || (f.flavour == Flavour::Async && now / NS - e.born_ns / NS >= t),
                            _ => false,
                        }
                })
                .collect();
            let cand: BTreeSet<u32> = cand.difference(&stale).copied().collect();
            let removed = cand.difference(post).count();
            // which entries went (FIFO: oldest store first, LRU: least recently used first)
            if removed > 0 && matches!(f.pol(), Pol::Fifo | Pol::Lru) && !oversized {
                let mut ord: Vec<(u64, u32)> = cand
                    .iter()
                    .map(|kk| {
                        if *kk == k {
                            (u64::MAX, *kk)
                        } else {
                            let e = g.present.get(kk);
                            (e.map_or(0, |e| if f.pol() == Pol::Fifo { e.stored_seq } else { e.last_use }), *kk)
                        }
                    })
                    .collect();
                ord.sort();
                let want: BTreeSet<u32> = ord.iter().take(removed).map(|x| x.1).collect();
                let gone: BTreeSet<u32> = cand.difference(post).copied().collect();
                if want != gone {
                    out.findings.push(MFinding { property: "C07", monitor: "wrong-victim".into(), detail: format!("{}({k}): removed {:?}, {} order (oldest first) is {:?}", f.fn_name, gone, f.pol().name(), ord.iter().map(|x| x.1).collect::<Vec<_>>()) });
                }
            }
            if f.mem.is_none() {
                let expect = f.limit.map_or(0, |n| cand.len().saturating_sub(n));
                if removed != expect && !(removed < expect && f.limit.map_or(false, |n| post.len() <= n)) {
                    out.findings.push(MFinding { property: "C04", monitor: if removed > expect { "needless-eviction" } else { "missing-eviction" }.into(), detail: format!("{}({k}): keys {:?} -> {:?} with limit {:?}", f.fn_name, pre, post, f.limit) });
                    if removed > expect && f.ttl.is_some() {
                        // (already-expired entries were excluded above) an unexpired entry went without eviction or invalidation
                        out.findings.push(MFinding { property: "C06", monitor: "unexpired-entry-dropped".into(), detail: format!("{}({k}): keys {:?} -> {:?}: an entry younger than its ttl disappeared although the limit {:?} did not require it", f.fn_name, pre, post, f.limit) });
                    }
                }
            }
        }
        if let Some(n) = f.limit {
            if post.len() > n {
                out.findings.push(MFinding { property: "C04", monitor: "over-limit".into(), detail: format!("{}: {:?} listed with limit {n}", f.fn_name, post) });
            }
        }
        if let Some(m) = f.mem {
            let tot: usize = post
                .iter()
                .map(|kk| {
                    if *kk == k && executed && should_store {
                        g.footprint_of(*kk, new_ver, returned_err)
                    } else {
                        g.present.get(kk).map_or_else(|| g.footprint(*kk, 0), |e| g.footprint_of(*kk, e.ver, e.is_err))
                    }
                })
                .sum();
            if tot > m {
                out.findings.push(MFinding { property: "C05", monitor: "over-memory".into(), detail: format!("{}: {:?} = {tot} bytes listed with max_memory {m}", f.fn_name, post) });
            }
        }
    }
    // a refresh (invalidate_on said stale, the body ran) replaces one entry: whatever else it does to the
    // cache is a C11 matter as well
    if f.has_inval_on && had.is_some() && executed && stale {
        let more: Vec<MFinding> = out.findings[first_finding..]
            .iter()
            .filter(|x| matches!(x.property, "C04" | "C05" | "C07"))
            .map(|x| MFinding { property: "C11", monitor: format!("refresh-disturbed-the-cache/{}/{}", x.property, x.monitor), detail: x.detail.clone() })
            .collect();
        out.findings.extend(more);
    }
    // ---------------- ghost update
    // a lookup was a hit iff it found an unexpired entry: the call was served, or the entry was at least shown to invalidate_on
    if !executed || !io.is_empty() {
        g.hits += 1;
    }
    if !executed {
        if let Some(e) = g.present.get_mut(&k) {
            e.last_use = g.seq;
        }
    } else {
        if had.is_some() && must_expire {
            g.present.remove(&k);
        }
        let _ = stale;
        if should_store && !oversized {
            g.present.insert(k, GEntry { ver: new_ver, is_err: returned_err, born_ns: now, stored_seq: g.seq, last_use: g.seq });
            if pre_listed.is_none() && g.modelled {
                // thread scope, FIFO / LRU model: first the memory budget, then the entry limit
                if let Some(m) = f.mem {
                    loop {
                        let tot: usize = g.present.iter().map(|(kk, e)| g.footprint_of(*kk, e.ver, e.is_err)).sum();
                        if tot <= m {
                            break;
                        }
                        let victim = if f.pol() == Pol::Lru {
                            g.present.iter().min_by_key(|(_, e)| e.last_use).map(|(kk, _)| *kk)
                        } else {
                            g.present.iter().min_by_key(|(_, e)| e.stored_seq).map(|(kk, _)| *kk)
                        };
                        match victim {
                            Some(v) => {
                                g.present.remove(&v);
                            }
                            None => break,
                        }
                    }
                }
                if let Some(n) = f.limit {
                    while g.present.len() > n {
                        let victim = if f.pol() == Pol::Lru {
                            g.present.iter().min_by_key(|(_, e)| e.last_use).map(|(kk, _)| *kk)
                        } else {
                            g.present.iter().min_by_key(|(_, e)| e.stored_seq).map(|(kk, _)| *kk)
                        };
                        match victim {
                            Some(v) => {
                                g.present.remove(&v);
                            }
                            None => break,
                        }
                    }
                }
            }
        } else if should_store && oversized {
            g.present.remove(&k);
        }
    }
    if let Some(post) = &post_listed {
        g.present.retain(|kk, _| post.contains(kk));
    }
    // ---------------- statistics (C15)
    if f.flavour != Flavour::Thread {
        let st = l1::stats_of(f.name);
        if st != Some((g.hits, g.lookups - g.hits)) {
            out.findings.push(MFinding { property: "C15", monitor: "stats-mismatch".into(), detail: format!("{}: statistics {:?}, performed lookups {} of which hits {}", f.name, st, g.lookups, g.hits) });
        }
        if f.name != f.fn_name && l1::stats_of(f.fn_name).is_some() {
            out.findings.push(MFinding { property: "C15", monitor: "registered-under-function-name".into(), detail: format!("{} has name = \"{}\" but statistics also answer under the function name", f.fn_name, f.name) });
        }
    }
    if let Some(post) = &post_listed {
        out.obs.push_str(&format!("{:?}", post));
    }
}

// ---------------------------------------------------------------------------------------------
// enumeration
// ---------------------------------------------------------------------------------------------

#[derive(Clone, Debug)]
pub struct Suite {
    pub f: &'static FnInfo,
    pub f2: Option<&'static FnInfo>,
    pub group: Vec<&'static FnInfo>,
    pub wash: bool,
    pub alphabet: Vec<MOp>,
    pub depth: usize,
    /// skip operation sequences containing steps that cannot do anything (pending-call suites)
    pub prune_noops: bool,
}

/// Abstract validity of a pending-call history: no poll / drop without a started call, no second
/// start into an occupied slot, no gate opened twice, at most three ticks.
fn pending_history_is_tight(hist: &[MOp]) -> bool {
    let mut slot = [false, false];
    let mut gates = [false; 3];
    let mut ticks = 0;
    for op in hist {
        match op {
            MOp::PStart(s, _) => {
                if slot[*s] {
                    return false;
                }
                slot[*s] = true;
            }
            MOp::PPoll(s) => {
                if !slot[*s] {
                    return false;
                }
            }
            MOp::PDrop(s) => {
                if !slot[*s] {
                    return false;
                }
                slot[*s] = false;
            }
            MOp::POpen(g) => {
                if gates[*g] {
                    return false;
                }
                gates[*g] = true;
            }
            MOp::Tick => {
                ticks += 1;
                if ticks > 3 {
                    return false;
                }
            }
            _ => {}
        }
    }
    true
}

#[derive(Default)]
pub struct SuiteResult {
    pub histories: u64,
    pub runs: u64,
    pub steps: u64,
    pub distinct_obs: usize,
    pub choice_points: u64,
    pub violations: Vec<Violation>,
    pub sample: J,
}

fn run_history(s: &Suite, hist: &[MOp], prefix: &[usize], property: &str) -> (Vec<StepOut>, Vec<(usize, usize)>) {
    let body = || -> Vec<StepOut> {
        let mut m = match Machine::new(s.f, s.f2, &s.group, s.wash) {
            Ok(m) => m,
            Err(e) => {
                // invalidate_with(everything) left entries behind: a C13 violation in itself; any
                // other property cannot be judged on a cache that cannot be emptied
                if property == "C13" || property == "C12" {
                    return vec![StepOut { findings: vec![MFinding { property: if property == "C13" { "C13" } else { "C12" }, monitor: "cache-cannot-be-emptied".into(), detail: e }], obs: "reset-failed".into(), panicked: true }];
                }
                vsched::machinery_failure(&format!("reset failed before a history: {e}"))
            }
        };
        let mut outs = Vec::new();
        for op in hist {
            let pending = m.pending_seen;
            let o = match std::panic::catch_unwind(std::panic::AssertUnwindSafe(|| m.step(op))) {
                Ok(o) => o,
                Err(p) => {
                    // a panic outside the subject's own calls: in sequential mode that is an
                    // acquisition of a lock somebody still holds (nobody else exists to release it)
                    let msg = vsched::describe_panic(&*p);
                    let blocked = msg.contains(vsched::SELF_DEADLOCK_MARK);
                    let (prop, mon): (&'static str, &str) = match (blocked, pending) {
                        (true, true) => ("C20", "lock-held-across-suspension"),
                        (true, false) => ("C17", "lock-still-held-after-operation"),
                        (false, _) => ("C16", "panic-in-observation"),
                    };
                    StepOut { findings: vec![MFinding { property: prop, monitor: mon.into(), detail: format!("{}: {msg}", op.render()) }], obs: "panic".into(), panicked: true }
                }
            };
            let stop = o.panicked;
            outs.push(o);
            if stop {
                break;
            }
        }
        if !outs.last().map_or(true, |o| o.panicked) {
            let extra = m.solo_check();
            if let Some(last) = outs.last_mut() {
                last.findings.extend(extra);
            }
        }
        outs
    };
    let partitioned = hist.iter().any(|o| matches!(o, MOp::CallOn(..)));
    if !partitioned && (s.f.flavour == Flavour::Thread || s.f2.map_or(false, |f| f.flavour == Flavour::Thread)) {
        // thread scope: a fresh OS thread is a fresh cache
        let prefix = prefix.to_vec();
        std::thread::scope(|sc| sc.spawn(move || vsched::run_with_choices(&prefix, body)).join().unwrap_or_else(|_| vsched::machinery_failure("history thread panicked")))
    } else {
        vsched::run_with_choices(prefix, body)
    }
}

pub fn replay_once(s: &Suite, hist: &[MOp], choices: &[usize], property: &str) -> (Vec<String>, bool) {
    vsched::clock_freeze(START_NS);
    for x in std::iter::once(s.f).chain(s.f2).chain(s.group.iter().copied()) {
        if x.flavour != Flavour::Thread && l1::list_keys(x.name).is_none() {
            vsched::run_with_choices(&[], || {
                let _ = (x.call)(0);
            });
        }
        REGISTERED.lock().unwrap().insert(x.id);
    }
    let (outs, _) = run_history(s, hist, choices, property);
    let mut lines = Vec::new();
    let mut bad = false;
    for (op, o) in hist.iter().zip(outs.iter()) {
        lines.push(format!("{:<24} -> {}", op.render(), o.obs));
        for f in &o.findings {
            lines.push(format!("    FINDING {}/{}: {}", f.property, f.monitor, f.detail));
            if property.is_empty() || f.property == property {
                bad = true;
            }
        }
    }
    (lines, bad)
}

pub fn replay_json(s: &Suite, hist: &[MOp], choices: &[usize]) -> J {
    J::obj()
        .set("engine", "macx")
        .set("function", s.f.id as usize)
        .set("function2", s.f2.map(|f| f.id as usize))
        .set("group", J::Arr(s.group.iter().map(|f| J::Int(f.id as i64)).collect()))
        .set("wash", s.wash)
        .set("label", s.f.label())
        .set("ops", J::Arr(hist.iter().map(|o| J::Str(o.render())).collect()))
        .set("choices", J::Arr(choices.iter().map(|c| J::Int(*c as i64)).collect()))
}

pub fn explore_suite(s: &Suite, property: &str) -> SuiteResult {
    let mut res = SuiteResult::default();
    let mut obs_seen: HashSet<(u64, u64)> = HashSet::new();
    let mut per_sig: BTreeMap<String, usize> = BTreeMap::new();
    let n = s.alphabet.len();
    let mut idx = vec![0usize; s.depth];
    let mut sample: Option<J> = None;
    // first-call registration (once per process), outside any enumeration
    vsched::clock_freeze(START_NS);
    for x in std::iter::once(s.f).chain(s.f2).chain(s.group.iter().copied()) {
        if x.flavour != Flavour::Thread && l1::list_keys(x.name).is_none() {
            vsched::run_with_choices(&[], || {
                let _ = (x.call)(0);
            });
        }
        REGISTERED.lock().unwrap().insert(x.id);
    }
    // determinism self-check on the first history
    {
        let hist: Vec<MOp> = idx.iter().map(|i| s.alphabet[*i].clone()).collect();
        let a: Vec<String> = run_history(s, &hist, &[], property).0.iter().map(|o| o.obs.clone()).collect();
        let b: Vec<String> = run_history(s, &hist, &[], property).0.iter().map(|o| o.obs.clone()).collect();
        if a != b {
            if property == "C14" && s.f.flavour == Flavour::Thread {
                // every history runs on fresh OS threads: the same history can only behave differently the
                // second time if thread-scope state outlived (was shared between) its threads
                res.violations.push(Violation {
                    property: "C14",
                    signature: format!("C14/thread/{}/state-outlives-its-thread", s.f.family),
                    detail: format!("function {}: the same history on fresh OS threads gave {a:?} the first time and {b:?} the second time", s.f.label()),
                    replay: replay_json(s, &hist, &[]),
                });
                res.histories = 1;
                res.runs = 2;
                res.steps = (a.len() + b.len()) as u64;
                res.distinct_obs = 2;
                return res;
            }
            vsched::machinery_failure(&format!("suite {} is not deterministic: {a:?} vs {b:?}", s.f.label()));
        }
    }
    'outer: loop {
        let mut hist: Vec<MOp> = idx.iter().map(|i| s.alphabet[*i].clone()).collect();
        // prune: find the first position that makes the history loose and skip the whole subtree below it
        let mut skip_at: Option<usize> = None;
        if s.prune_noops {
            for l in 1..=hist.len() {
                if !pending_history_is_tight(&hist[..l]) {
                    skip_at = Some(l - 1);
                    break;
                }
            }
        }
        // partitioned histories: worker threads are interchangeable, so only histories that name them in order
        // of first use are run (T1 never before T0, T2 never before T1); the others are renamings of these
        if skip_at.is_none() {
            let mut used = 0usize;
            for (l, o) in hist.iter().enumerate() {
                if let MOp::CallOn(t, _) = o {
                    if *t > used {
                        skip_at = Some(l);
                        break;
                    }
                    if *t == used {
                        used += 1;
                    }
                }
            }
        }
        if let Some(pos) = skip_at {
            // advance the odometer at `pos`, resetting everything to its right
            let mut p = pos + 1;
            for x in idx.iter_mut().skip(pos + 1) {
                *x = 0;
            }
            loop {
                if p == 0 {
                    break 'outer;
                }
                p -= 1;
                idx[p] += 1;
                if idx[p] < n {
                    break;
                }
                idx[p] = 0;
            }
            continue 'outer;
        }
        // a call that was suspended across a clock step and then completed: probe the freshness of what it stored
        if s.prune_noops {
            if let (Some(t), Some(MOp::PPoll(_))) = (s.f.ttl, hist.last()) {
                if hist.iter().any(|o| matches!(o, MOp::Tick)) {
                    for _ in 1..t {
                        hist.push(MOp::Tick);
                    }
                    hist.push(MOp::Call(1));
                }
            }
        }
        res.histories += 1;
        let mut prefix: Vec<usize> = Vec::new();
        loop {
            let (outs, trace) = run_history(s, &hist, &prefix, property);
            res.runs += 1;
            res.steps += outs.len() as u64;
            res.choice_points += trace.len() as u64;
            let mut obs_acc = String::new();
            for (i, o) in outs.iter().enumerate() {
                obs_acc.push_str(&o.obs);
                obs_acc.push(';');
                obs_seen.insert(key128(&obs_acc));
                for fd in &o.findings {
                    if fd.property != property {
                        continue;
                    }
                    let sig = format!("{}/{}/{}/{}", fd.property, s.f.flavour.name(), s.f.family, fd.monitor);
                    let c = per_sig.entry(sig.clone()).or_insert(0);
                    *c += 1;
                    if *c <= 1 {
                        let choices: Vec<usize> = trace.iter().map(|t| t.0).collect();
                        res.violations.push(Violation {
                            property: fd.property,
                            signature: sig,
                            detail: format!("{} | function {} | history {:?} (step {}) choices {:?}", fd.detail, s.f.label(), hist[..=i].iter().map(|o| o.render()).collect::<Vec<_>>(), i, choices),
                            replay: replay_json(s, &hist[..=i], &choices),
                        });
                    }
                }
            }
            if sample.is_none() && trace.len() >= 1 {
                sample = Some(J::obj().set("function", s.f.label()).set("history", J::Arr(hist.iter().map(|o| J::Str(o.render())).collect())).set("choices", J::Arr(trace.iter().map(|t| J::Int(t.0 as i64)).collect())).set("observed", J::Arr(outs.iter().map(|o| J::Str(o.obs.clone())).collect())));
            }
            match vsched::next_prefix(&trace, 0) {
                Some(p) => prefix = p,
                None => break,
            }
        }
        if sample.is_none() && res.histories == (n as u64).pow(s.depth as u32) / 2 + 1 {
            let (outs, _) = run_history(s, &hist, &[], property);
            sample = Some(J::obj().set("function", s.f.label()).set("history", J::Arr(hist.iter().map(|o| J::Str(o.render())).collect())).set("observed", J::Arr(outs.iter().map(|o| J::Str(o.obs.clone())).collect())));
        }
        // next op sequence (odometer)
        let mut p = s.depth;
        loop {
            if p == 0 {
                break 'outer;
            }
            p -= 1;
            idx[p] += 1;
            if idx[p] < n {
                break;
            }
            idx[p] = 0;
        }
    }
    res.distinct_obs = obs_seen.len();
    res.sample = sample.unwrap_or(J::Null);
    res
}

// ---------------------------------------------------------------------------------------------
// suites per property
// ---------------------------------------------------------------------------------------------

fn fam(name: &str) -> Vec<&'static FnInfo> {
    FUNCS.iter().filter(|f| f.family == name).collect()
}

pub fn suites_for(property: &str, thorough: bool) -> Vec<Suite> {
    let mut out = Vec::new();
    let d = |q: usize, t: usize| if thorough { t } else { q };
    match property {
        "C01" | "C04" | "C05" | "C06" | "C16" => {
            for f in fam("core") {
                let rel = match property {
                    "C04" => f.limit.is_some(),
                    "C05" => f.mem.is_some(),
                    "C06" => f.ttl.is_some(),
                    _ => true,
                };
                if !rel {
                    continue;
                }
                let mut a = vec![MOp::Call(1), MOp::Call(2), MOp::Call(3)];
                if f.mem.is_some() {
                    a.push(MOp::Call(9));
                }
                if f.ttl.is_some() {
                    a.push(MOp::Tick);
                }
                if f.flavour != Flavour::Thread && (thorough || f.limit.is_some()) {
                    a.push(MOp::InvWith(0b0010));
                }
                let depth = if a.len() >= 6 { d(4, 5) } else { d(4, 6) };
                out.push(Suite { f, f2: None, group: vec![], wash: false, prune_noops: false, alphabet: a, depth });
            }
            if property == "C05" {
                // max_memory must also bind for Result functions, predicates and refreshed entries
                for f in fam("result").into_iter().chain(fam("cache_if")).chain(fam("inval_on")).filter(|f| f.mem.is_some()) {
                    out.push(Suite { f, f2: None, group: vec![], wash: false, prune_noops: false, alphabet: vec![MOp::Call(1), MOp::Call(2), MOp::Call(3), MOp::Call(9)], depth: d(4, 5) });
                }
            }
            if property == "C01" || property == "C16" {
                for f in fam("inval_on").into_iter().chain(fam("result")).chain(fam("cache_if")) {
                    let mut a = vec![MOp::Call(1), MOp::Call(2)];
                    if f.versioned && f.mem.is_some() {
                        // key 8: fits at first, every refreshed value is too large to be stored
                        a.push(MOp::Call(8));
                    }
                    out.push(Suite { f, f2: None, group: vec![], wash: false, prune_noops: false, alphabet: a, depth: d(3, 4) });
                }
            }
        }
        "C03" => {
            let plain: Vec<&'static FnInfo> = fam("core").into_iter().filter(|f| f.limit.is_none() && f.ttl.is_none() && f.mem.is_none()).collect();
            for (i, f) in plain.iter().enumerate() {
                // interleave with a second function of the same flavour that shares the key strings
                let f2 = plain.iter().enumerate().find(|(j, g)| *j != i && g.flavour == f.flavour).map(|(_, g)| *g);
                out.push(Suite { f, f2, group: vec![], wash: false, prune_noops: false, alphabet: vec![MOp::Call(1), MOp::Call(2), MOp::Call(3), MOp::Call2(1), MOp::Call2(2)], depth: d(5, 6) });
            }
        }
        "C07" => {
            for f in fam("core").into_iter().filter(|f| f.flavour != Flavour::Thread && matches!(f.pol(), Pol::Fifo | Pol::Lru) && f.ttl.is_none() && (f.limit.is_some() || f.mem.is_some())) {
                let n = f.limit.unwrap_or(2) as u32;
                let mut a: Vec<MOp> = (1..=n + 2).map(MOp::Call).collect();
                if f.mem.is_some() {
                    a.push(MOp::Call(9));
                }
                if f.limit == Some(2) && f.mem.is_none() {
                    // an entry removed by a predicate and stored again: its old queue position must be gone
                    a.push(MOp::InvWith(0b0010));
                }
                let depth = if n >= 3 { d(5, 6) } else { d(5, 7) };
                out.push(Suite { f, f2: None, group: vec![], wash: false, prune_noops: false, alphabet: a, depth });
            }
        }
        "C09" => {
            for f in fam("result") {
                let mut a = vec![MOp::Call(1), MOp::Call(2), MOp::Call(3)];
                if f.mem.is_some() {
                    a.push(MOp::Call(9));
                }
                if f.ttl.is_some() {
                    a.push(MOp::Tick);
                }
                // store, two steps of ageing, failed refresh, store of another key, call it again: six steps
                let depth = match (f.ttl.is_some(), f.limit.is_some()) {
                    (true, true) => d(6, 7),
                    (true, false) => d(5, 6),
                    _ => d(4, 5),
                };
                out.push(Suite { f, f2: None, group: vec![], wash: false, prune_noops: false, alphabet: a, depth });
            }
        }
        "C10" => {
            for f in fam("cache_if") {
                let mut a = vec![MOp::Call(1), MOp::Call(2)];
                if f.limit.is_some() || thorough {
                    a.push(MOp::Call(3));
                }
                if f.ttl.is_some() {
                    a.push(MOp::Tick);
                }
                out.push(Suite { f, f2: None, group: vec![], wash: false, prune_noops: false, alphabet: a, depth: if f.ttl.is_some() { d(5, 6) } else { d(4, 5) } });
            }
        }
        "C11" => {
            for f in fam("inval_on") {
                let mut a = vec![MOp::Call(1), MOp::Call(2)];
                if thorough || f.limit == Some(2) {
                    a.push(MOp::Call(3));
                }
                if f.mem.is_some() {
                    // key 7: every refreshed value is ten bytes larger than the first one, so a refresh can push the
                    // total over the budget while still fitting alone
                    a.push(MOp::Call(7));
                }
                if f.ttl.is_some() {
                    a.push(MOp::Tick);
                }
                out.push(Suite { f, f2: None, group: vec![], wash: false, prune_noops: false, alphabet: a, depth: if f.ttl.is_some() { d(5, 6) } else { d(4, 5) } });
            }
        }
        "C13" => {
            let masks = [0b0010u32, 0b0100, 0b0110, 0b1110, 0b1010];
            let cands: Vec<&'static FnInfo> = fam("core").into_iter().filter(|f| f.flavour != Flavour::Thread && f.ttl.is_none() && f.limit != Some(3) && (thorough || f.mem.is_none())).collect();
            // deeper queues: remove an entry that has two later entries behind it, then overflow twice
            for f in fam("core").into_iter().filter(|f| f.flavour != Flavour::Thread && f.limit == Some(3)) {
                let mut a: Vec<MOp> = (1..=5).map(MOp::Call).collect();
                a.push(MOp::InvWith(0b0010));
                // two matched keys in one invalidation, with a live entry behind them
                a.push(MOp::InvWith(0b0110));
                if thorough {
                    a.push(MOp::InvWith(0b0100));
                }
                // seven steps (three stores, the invalidation, three more stores) where the victim order is checked
                let depth = if thorough || matches!(f.pol(), Pol::Fifo | Pol::Lru) { 7 } else { 6 };
                out.push(Suite { f, f2: None, group: vec![], wash: false, prune_noops: false, alphabet: a, depth });
            }
            // group requests must leave every cache alone that does not declare the name asked for — also when that
            // cache depends on one that does (names of caches used as dependencies: the `selfdep` group), and for the
            // first groups of the metadata corpus
            let mut groups = suites_for("C12", thorough);
            let selfdep: Vec<Suite> = groups.iter().filter(|s| s.group.iter().any(|f| f.family == "selfdep")).cloned().collect();
            groups.retain(|s| !s.group.iter().any(|f| f.family == "selfdep"));
            out.extend(selfdep);
            out.extend(groups.into_iter().take(if thorough { 16 } else { 6 }));
            for (i, f) in cands.iter().enumerate() {
                let f2 = cands.get((i + 1) % cands.len()).copied();
                let mut a = vec![MOp::Call(1), MOp::Call(2), MOp::Call(3)];
                for (j, m) in masks.iter().enumerate() {
                    if thorough || j < 3 {
                        a.push(MOp::InvWith(*m));
                    }
                }
                a.push(MOp::InvAllWith(0b0110));
                // the neighbour function holds equal key strings: a verdict leaking from one cache to another shows
                a.push(MOp::Call2(1));
                if thorough {
                    a.push(MOp::Call2(2));
                }
                out.push(Suite { f, f2, group: vec![], wash: false, prune_noops: false, alphabet: a, depth: d(4, 5) });
            }
        }
        "C14" => {
            // every call history over two keys, every assignment of its calls to 2-3 threads, executed in
            // history order at call granularity (finer interleavings: the scheduler drivers of thrx)
            let nthreads = if thorough { 3 } else { 2 };
            for f in fam("core").into_iter().filter(|f| f.ttl.is_none() && (f.mem.is_none() || f.mem == Some(70)) && f.limit != Some(3) && f.pol() != Pol::Random) {
                let keys: Vec<u32> = match f.limit {
                    Some(1) => vec![1, 2],
                    _ => vec![1, 2, 3],
                };
                let mut a = Vec::new();
                for t in 0..nthreads {
                    for k in &keys {
                        a.push(MOp::CallOn(t, *k));
                    }
                }
                let depth = match (thorough, a.len()) {
                    (false, n) if n > 4 => 5,
                    (false, _) => 6,
                    (true, n) if n > 6 => 5,
                    (true, _) => 6,
                };
                out.push(Suite { f, f2: None, group: vec![], wash: false, prune_noops: false, alphabet: a, depth });
            }
        }
        "C20" => {
            for f in fam("gate") {
                if !thorough && f.gates == 3 && f.limit.is_none() {
                    continue;
                }
                let mut a = vec![MOp::PStart(0, 1), MOp::PPoll(0)];
                for g in 0..f.gates {
                    a.push(MOp::POpen(g));
                }
                a.push(MOp::PDrop(0));
                a.push(MOp::Call(1));
                a.push(MOp::Call(2));
                if f.limit == Some(2) {
                    // a third key: what a resumed store did to the eviction order shows at the next overflow
                    a.push(MOp::Call(3));
                }
                a.push(MOp::InvWith(0b0110));
                if f.ttl.is_some() {
                    a.push(MOp::Tick);
                }
                if thorough {
                    a.push(MOp::PStart(1, 1));
                    a.push(MOp::PPoll(1));
                    a.push(MOp::Req("tag", "t".to_string()));
                }
                // no-op steps are pruned, so the depth can be larger than the raw alphabet suggests
                let depth = match (thorough, f.gates) {
                    (false, 1) => 7,
                    (false, _) => 6,
                    (true, 1) => 8,
                    (true, _) => 7,
                };
                out.push(Suite { f, f2: None, group: vec![f], wash: false, prune_noops: true, alphabet: a, depth });
            }
        }
        "C12" => {
            // groups of metadata functions: 4 sync + 4 async each, together covering all 128
            let metas = fam("meta");
            let sync: Vec<&'static FnInfo> = metas.iter().copied().filter(|f| f.flavour == Flavour::Global).collect();
            let asy: Vec<&'static FnInfo> = metas.iter().copied().filter(|f| f.flavour == Flavour::Async).collect();
            let per = if thorough { 3 } else { 2 };
            let ngroups = sync.len() / per;
            for gi in 0..ngroups {
                let mut group: Vec<&'static FnInfo> = Vec::new();
                for j in 0..per {
                    // spread: neighbours in the product order differ in their dependency subset, stride 21 mixes all three
                    group.push(sync[(gi * per + j * 21) % sync.len()]);
                    group.push(asy[(gi * per + j * 21 + 7) % asy.len()]);
                }
                group.dedup_by_key(|f| f.id);
                let mut a: Vec<MOp> = Vec::new();
                for (i, _) in group.iter().enumerate() {
                    a.push(MOp::CallN(i, 1));
                    if thorough {
                        a.push(MOp::CallN(i, 2));
                    }
                }
                for kind in ["tag", "event", "dep"] {
                    for arg in ["x", "y", "z"] {
                        a.push(MOp::Req(kind, arg.to_string()));
                    }
                }
                a.push(MOp::Req("cache", group[0].name.to_string()));
                a.push(MOp::Req("cache", group[1].name.to_string()));
                a.push(MOp::Req("cache", "no_such_cache".to_string()));
                a.push(MOp::Req("cache", "x".to_string()));
                out.push(Suite { f: group[0], f2: None, group, wash: true, prune_noops: false, alphabet: a, depth: d(3, 3) });
            }
            // names that are at once a cache's name and a dependency / tag / event (of itself or of a neighbour)
            let group = fam("selfdep");
            if !group.is_empty() {
                let mut a: Vec<MOp> = Vec::new();
                for (i, _) in group.iter().enumerate() {
                    a.push(MOp::CallN(i, 1));
                }
                let mut names: Vec<String> = group.iter().map(|f| f.name.to_string()).collect();
                names.push("x".into());
                for n in &names {
                    a.push(MOp::Req("dep", n.clone()));
                }
                for f in group.iter().take(2) {
                    a.push(MOp::Req("cache", f.name.to_string()));
                }
                a.push(MOp::Req("tag", group[4].name.to_string()));
                a.push(MOp::Req("event", group[4].name.to_string()));
                out.push(Suite { f: group[0], f2: None, group, wash: true, prune_noops: false, alphabet: a, depth: d(3, 4) });
            }
        }
        "C15" => {
            let cands: Vec<&'static FnInfo> = fam("core").into_iter().filter(|f| f.flavour != Flavour::Thread && f.mem.is_none() && f.limit != Some(2)).collect();
            let named: Vec<&'static FnInfo> = fam("meta").into_iter().filter(|f| f.name != f.fn_name).collect();
            for (i, f) in cands.iter().enumerate() {
                let f2 = Some(named[i % named.len()]);
                let mut a = vec![MOp::Call(1), MOp::Call(2), MOp::Call2(1), MOp::StatsReset, MOp::StatsReset2];
                if f.ttl.is_some() {
                    a.push(MOp::Tick);
                }
                a.push(MOp::InvWith(0b0010));
                out.push(Suite { f, f2, group: vec![], wash: false, prune_noops: false, alphabet: a, depth: d(4, 5) });
            }
            // every lookup counts exactly once also when a predicate is involved
            for f in fam("inval_on").into_iter().chain(fam("result")).chain(fam("cache_if")).filter(|f| f.flavour != Flavour::Thread && (thorough || f.mem.is_none())) {
                let mut a = vec![MOp::Call(1), MOp::Call(2)];
                if f.ttl.is_some() {
                    a.push(MOp::Tick);
                }
                out.push(Suite { f, f2: None, group: vec![], wash: false, prune_noops: false, alphabet: a, depth: d(4, 5) });
            }
            for (i, f) in named.iter().enumerate().take(if thorough { 32 } else { 8 }) {
                let f2 = Some(named[(i + 1) % named.len()]);
                out.push(Suite { f, f2, group: vec![], wash: false, prune_noops: false, alphabet: vec![MOp::Call(1), MOp::Call2(1), MOp::StatsReset, MOp::StatsReset2], depth: d(4, 5) });
            }
        }
        _ => {}
    }
    out
}
