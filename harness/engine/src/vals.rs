//! Value types stored in the L0 caches, with harness-owned storage and the harness's own
//! footprint rule (inline size + owned heap capacity, recursively) — never `estimate_memory`.
use cachelito_core::{CacheEntry, CacheStats, MemoryEstimator};
use dashmap::DashMap;
use once_cell::sync::Lazy;
use parking_lot::{Mutex, RwLock};
use std::cell::RefCell;
use std::collections::{HashMap, VecDeque};
use std::mem::size_of;
use std::thread::LocalKey;

pub struct Storage<V: 'static> {
    pub g_map: &'static Lazy<RwLock<HashMap<String, CacheEntry<V>>>>,
    pub g_order: &'static Lazy<Mutex<VecDeque<String>>>,
    pub g_stats: &'static Lazy<CacheStats>,
    pub tl_map: &'static LocalKey<RefCell<HashMap<String, CacheEntry<V>>>>,
    pub tl_order: &'static LocalKey<RefCell<VecDeque<String>>>,
    pub a_map: &'static Lazy<DashMap<String, (V, u64, u64)>>,
    pub a_order: &'static Lazy<Mutex<VecDeque<String>>>,
    pub a_stats: &'static Lazy<CacheStats>,
}

pub trait Val: Clone + Send + Sync + 'static + MemoryEstimator + std::fmt::Debug {
    const NAME: &'static str;
    /// A value that encodes (key, variant) and owns about `payload` heap bytes in total,
    /// with capacity deliberately different from length where the type allows it.
    fn make(key: u8, variant: u8, payload: usize) -> Self;
    fn ident(&self) -> (u8, u8);
    fn footprint(&self) -> usize;
    fn storage() -> &'static Storage<Self>;
}

fn tag(key: u8, variant: u8) -> String {
    format!("k{key}v{variant}")
}
fn untag(s: &str) -> (u8, u8) {
    let b = s.as_bytes();
    if b.len() >= 4 && b[0] == b'k' && b[2] == b'v' {
        (b[1] - b'0', b[3] - b'0')
    } else {
        (255, 255)
    }
}
fn string_with(key: u8, variant: u8, cap: usize) -> String {
    let t = tag(key, variant);
    let mut s = String::with_capacity(cap.max(t.len()));
    s.push_str(&t);
    s
}
fn bytes_with(key: u8, variant: u8, cap: usize) -> Vec<u8> {
    let mut v = Vec::with_capacity(cap.max(2));
    v.push(key);
    v.push(variant);
    v
}

macro_rules! storage {
    ($ty:ty) => {
        fn storage() -> &'static Storage<Self> {
            static G_MAP: Lazy<RwLock<HashMap<String, CacheEntry<$ty>>>> = Lazy::new(|| RwLock::new(HashMap::new()));
            static G_ORDER: Lazy<Mutex<VecDeque<String>>> = Lazy::new(|| Mutex::new(VecDeque::new()));
            static G_STATS: Lazy<CacheStats> = Lazy::new(CacheStats::new);
            thread_local! {
                static TL_MAP: RefCell<HashMap<String, CacheEntry<$ty>>> = RefCell::new(HashMap::new());
                static TL_ORDER: RefCell<VecDeque<String>> = RefCell::new(VecDeque::new());
            }
            static A_MAP: Lazy<DashMap<String, ($ty, u64, u64)>> = Lazy::new(DashMap::new);
            static A_ORDER: Lazy<Mutex<VecDeque<String>>> = Lazy::new(|| Mutex::new(VecDeque::new()));
            static A_STATS: Lazy<CacheStats> = Lazy::new(CacheStats::new);
            static S: Storage<$ty> = Storage {
                g_map: &G_MAP,
                g_order: &G_ORDER,
                g_stats: &G_STATS,
                tl_map: &TL_MAP,
                tl_order: &TL_ORDER,
                a_map: &A_MAP,
                a_order: &A_ORDER,
                a_stats: &A_STATS,
            };
            &S
        }
    };
}

impl Val for String {
    const NAME: &'static str = "String";
    fn make(key: u8, variant: u8, payload: usize) -> Self {
        string_with(key, variant, payload)
    }
    fn ident(&self) -> (u8, u8) {
        untag(self)
    }
    fn footprint(&self) -> usize {
        size_of::<String>() + self.capacity()
    }
    storage!(String);
}

impl Val for Vec<u8> {
    const NAME: &'static str = "Vec<u8>";
    fn make(key: u8, variant: u8, payload: usize) -> Self {
        bytes_with(key, variant, payload)
    }
    fn ident(&self) -> (u8, u8) {
        (self[0], self[1])
    }
    fn footprint(&self) -> usize {
        size_of::<Vec<u8>>() + self.capacity()
    }
    storage!(Vec<u8>);
}

impl Val for Vec<String> {
    const NAME: &'static str = "Vec<String>";
    fn make(key: u8, variant: u8, payload: usize) -> Self {
        // outer buffer with spare capacity for 3 Strings, two elements of different heap sizes
        let outer = 3 * size_of::<String>();
        let rest = payload.saturating_sub(outer).max(8);
        let mut v = Vec::with_capacity(3);
        v.push(string_with(key, variant, rest / 2));
        v.push(string_with(key, variant, rest - rest / 2));
        v
    }
    fn ident(&self) -> (u8, u8) {
        untag(&self[0])
    }
    fn footprint(&self) -> usize {
        size_of::<Vec<String>>() + self.capacity() * size_of::<String>() + self.iter().map(|s| s.capacity()).sum::<usize>()
    }
    storage!(Vec<String>);
}

impl Val for Option<String> {
    const NAME: &'static str = "Option<String>";
    fn make(key: u8, variant: u8, payload: usize) -> Self {
        Some(string_with(key, variant, payload))
    }
    fn ident(&self) -> (u8, u8) {
        untag(self.as_ref().unwrap())
    }
    fn footprint(&self) -> usize {
        size_of::<Option<String>>() + self.as_ref().map_or(0, |s| s.capacity())
    }
    storage!(Option<String>);
}

impl Val for Result<String, String> {
    const NAME: &'static str = "Result<String,String>";
    fn make(key: u8, variant: u8, payload: usize) -> Self {
        if variant % 2 == 0 {
            Ok(string_with(key, variant, payload))
        } else {
            Err(string_with(key, variant, payload))
        }
    }
    fn ident(&self) -> (u8, u8) {
        match self {
            Ok(s) | Err(s) => untag(s),
        }
    }
    fn footprint(&self) -> usize {
        size_of::<Result<String, String>>()
            + match self {
                Ok(s) | Err(s) => s.capacity(),
            }
    }
    storage!(Result<String, String>);
}

impl Val for (String, Vec<u8>) {
    const NAME: &'static str = "(String,Vec<u8>)";
    fn make(key: u8, variant: u8, payload: usize) -> Self {
        (string_with(key, variant, payload / 3), bytes_with(key, variant, payload - payload / 3))
    }
    fn ident(&self) -> (u8, u8) {
        untag(&self.0)
    }
    fn footprint(&self) -> usize {
        size_of::<(String, Vec<u8>)>() + self.0.capacity() + self.1.capacity()
    }
    storage!((String, Vec<u8>));
}

impl Val for Box<String> {
    const NAME: &'static str = "Box<String>";
    fn make(key: u8, variant: u8, payload: usize) -> Self {
        Box::new(string_with(key, variant, payload.saturating_sub(size_of::<String>()).max(4)))
    }
    fn ident(&self) -> (u8, u8) {
        untag(self)
    }
    fn footprint(&self) -> usize {
        // the box pointer inline, the String header and its buffer on the heap
        size_of::<Box<String>>() + size_of::<String>() + self.capacity()
    }
    storage!(Box<String>);
}

impl Val for (u32, String, Box<String>) {
    const NAME: &'static str = "(u32,String,Box<String>)";
    fn make(key: u8, variant: u8, payload: usize) -> Self {
        let rest = payload.saturating_sub(size_of::<String>()).max(8);
        (7, string_with(key, variant, rest / 2), Box::new(string_with(key, variant, rest - rest / 2)))
    }
    fn ident(&self) -> (u8, u8) {
        untag(&self.1)
    }
    fn footprint(&self) -> usize {
        size_of::<(u32, String, Box<String>)>() + self.1.capacity() + size_of::<String>() + self.2.capacity()
    }
    storage!((u32, String, Box<String>));
}

impl Val for (u8, u8, String) {
    const NAME: &'static str = "(u8,u8,String)";
    fn make(key: u8, variant: u8, payload: usize) -> Self {
        (key, variant, string_with(key, variant, payload))
    }
    fn ident(&self) -> (u8, u8) {
        (self.0, self.1)
    }
    fn footprint(&self) -> usize {
        size_of::<(u8, u8, String)>() + self.2.capacity()
    }
    storage!((u8, u8, String));
}

impl Val for Vec<Vec<u8>> {
    const NAME: &'static str = "Vec<Vec<u8>>";
    fn make(key: u8, variant: u8, payload: usize) -> Self {
        let outer = 2 * size_of::<Vec<u8>>();
        let rest = payload.saturating_sub(outer).max(4);
        let mut v = Vec::with_capacity(2);
        v.push(bytes_with(key, variant, rest));
        v
    }
    fn ident(&self) -> (u8, u8) {
        (self[0][0], self[0][1])
    }
    fn footprint(&self) -> usize {
        size_of::<Vec<Vec<u8>>>() + self.capacity() * size_of::<Vec<u8>>() + self.iter().map(|x| x.capacity()).sum::<usize>()
    }
    storage!(Vec<Vec<u8>>);
}

impl Val for (String, Option<String>) {
    const NAME: &'static str = "(String,Option<String>)";
    fn make(key: u8, variant: u8, payload: usize) -> Self {
        (string_with(key, variant, payload / 2), if variant % 2 == 0 { Some(string_with(key, variant, payload - payload / 2)) } else { None })
    }
    fn ident(&self) -> (u8, u8) {
        untag(&self.0)
    }
    fn footprint(&self) -> usize {
        size_of::<(String, Option<String>)>() + self.0.capacity() + self.1.as_ref().map_or(0, |x| x.capacity())
    }
    storage!((String, Option<String>));
}

impl Val for Option<Vec<u8>> {
    const NAME: &'static str = "Option<Vec<u8>>";
    fn make(key: u8, variant: u8, payload: usize) -> Self {
        Some(bytes_with(key, variant, payload))
    }
    fn ident(&self) -> (u8, u8) {
        let v = self.as_ref().unwrap();
        (v[0], v[1])
    }
    fn footprint(&self) -> usize {
        size_of::<Option<Vec<u8>>>() + self.as_ref().map_or(0, |v| v.capacity())
    }
    storage!(Option<Vec<u8>>);
}

impl Val for Vec<Option<String>> {
    const NAME: &'static str = "Vec<Option<String>>";
    fn make(key: u8, variant: u8, payload: usize) -> Self {
        let outer = 3 * size_of::<Option<String>>();
        let rest = payload.saturating_sub(outer).max(8);
        let mut v = Vec::with_capacity(3);
        v.push(Some(string_with(key, variant, rest)));
        v.push(None);
        v
    }
    fn ident(&self) -> (u8, u8) {
        untag(self[0].as_ref().unwrap())
    }
    fn footprint(&self) -> usize {
        size_of::<Vec<Option<String>>>() + self.capacity() * size_of::<Option<String>>() + self.iter().map(|s| s.as_ref().map_or(0, |x| x.capacity())).sum::<usize>()
    }
    storage!(Vec<Option<String>>);
}

impl Val for (String, String, String) {
    const NAME: &'static str = "(String,String,String)";
    fn make(key: u8, variant: u8, payload: usize) -> Self {
        let a = payload / 4;
        (string_with(key, variant, a.max(4)), string_with(key, variant, (payload / 2).max(4)), string_with(key, variant, payload.saturating_sub(a + payload / 2).max(4)))
    }
    fn ident(&self) -> (u8, u8) {
        untag(&self.0)
    }
    fn footprint(&self) -> usize {
        size_of::<(String, String, String)>() + self.0.capacity() + self.1.capacity() + self.2.capacity()
    }
    storage!((String, String, String));
}

impl Val for Vec<(String, u8)> {
    const NAME: &'static str = "Vec<(String,u8)>";
    fn make(key: u8, variant: u8, payload: usize) -> Self {
        let outer = 2 * size_of::<(String, u8)>();
        let rest = payload.saturating_sub(outer).max(8);
        let mut v = Vec::with_capacity(2);
        v.push((string_with(key, variant, rest), variant));
        v
    }
    fn ident(&self) -> (u8, u8) {
        untag(&self[0].0)
    }
    fn footprint(&self) -> usize {
        size_of::<Vec<(String, u8)>>() + self.capacity() * size_of::<(String, u8)>() + self.iter().map(|x| x.0.capacity()).sum::<usize>()
    }
    storage!(Vec<(String, u8)>);
}

/// A user type with its own `MemoryEstimator`: the figure it reports (deliberately unrelated to what it
/// really owns) is what `max_memory` must be charged with.
#[derive(Clone, Debug)]
pub struct UserBlob {
    pub tag: String,
    pub declared: usize,
}

impl MemoryEstimator for UserBlob {
    fn estimate_memory(&self) -> usize {
        self.declared
    }
}

impl Val for UserBlob {
    const NAME: &'static str = "UserBlob";
    fn make(key: u8, variant: u8, payload: usize) -> Self {
        UserBlob { tag: tag(key, variant), declared: payload + 7 }
    }
    fn ident(&self) -> (u8, u8) {
        untag(&self.tag)
    }
    fn footprint(&self) -> usize {
        self.declared
    }
    storage!(UserBlob);
}

impl Val for Box<Vec<String>> {
    const NAME: &'static str = "Box<Vec<String>>";
    fn make(key: u8, variant: u8, payload: usize) -> Self {
        let mut v = Vec::with_capacity(2);
        v.push(string_with(key, variant, payload.saturating_sub(3 * size_of::<String>()).max(6)));
        Box::new(v)
    }
    fn ident(&self) -> (u8, u8) {
        untag(&self[0])
    }
    fn footprint(&self) -> usize {
        // pointer inline; on the heap the Vec header, its buffer (capacity slots) and each element's buffer
        size_of::<Box<Vec<String>>>() + size_of::<Vec<String>>() + self.capacity() * size_of::<String>() + self.iter().map(|s| s.capacity()).sum::<usize>()
    }
    storage!(Box<Vec<String>>);
}

impl Val for Option<(String, Vec<u8>)> {
    const NAME: &'static str = "Option<(String,Vec<u8>)>";
    fn make(key: u8, variant: u8, payload: usize) -> Self {
        Some((string_with(key, variant, (payload / 3).max(4)), bytes_with(key, variant, payload - payload / 3)))
    }
    fn ident(&self) -> (u8, u8) {
        self.as_ref().map_or((255, 255), |x| untag(&x.0))
    }
    fn footprint(&self) -> usize {
        size_of::<Option<(String, Vec<u8>)>>() + self.as_ref().map_or(0, |x| x.0.capacity() + x.1.capacity())
    }
    storage!(Option<(String, Vec<u8>)>);
}

impl Val for Result<Vec<u8>, String> {
    const NAME: &'static str = "Result<Vec<u8>,String>";
    fn make(key: u8, variant: u8, payload: usize) -> Self {
        if variant % 2 == 0 {
            Ok(bytes_with(key, variant, payload))
        } else {
            Err(string_with(key, variant, payload))
        }
    }
    fn ident(&self) -> (u8, u8) {
        match self {
            Ok(v) => (v[0], v[1]),
            Err(s) => untag(s),
        }
    }
    fn footprint(&self) -> usize {
        size_of::<Result<Vec<u8>, String>>()
            + match self {
                Ok(v) => v.capacity(),
                Err(s) => s.capacity(),
            }
    }
    storage!(Result<Vec<u8>, String>);
}

impl Val for Vec<Box<String>> {
    const NAME: &'static str = "Vec<Box<String>>";
    fn make(key: u8, variant: u8, payload: usize) -> Self {
        let mut v = Vec::with_capacity(3);
        let rest = payload.saturating_sub(3 * size_of::<Box<String>>() + 2 * size_of::<String>()).max(8);
        v.push(Box::new(string_with(key, variant, rest / 2)));
        v.push(Box::new(string_with(key, variant, rest - rest / 2)));
        v
    }
    fn ident(&self) -> (u8, u8) {
        untag(&self[0])
    }
    fn footprint(&self) -> usize {
        size_of::<Vec<Box<String>>>() + self.capacity() * size_of::<Box<String>>() + self.iter().map(|b| size_of::<String>() + b.capacity()).sum::<usize>()
    }
    storage!(Vec<Box<String>>);
}
