//! E5 `cfgx` — attribute fidelity (C19): every generated function of `attrs_gen.rs` is driven
//! through every short history and compared, call for call, with a hand-written twin: the
//! *core* cache constructed directly with the numbers the attributes are intended to mean,
//! wrapped in the documented key -> get -> body -> insert logic (same fastrand answers on
//! both sides).
use crate::common::*;
use crate::json::J;
use crate::l1;
use crate::seqx;
use crate::vals::{Storage, Val};
use cachelito_core::{CacheEntry, CacheStats, MemoryEstimator};
use dashmap::DashMap;
use once_cell::sync::Lazy;
use parking_lot::{Mutex, RwLock};
use std::cell::RefCell;
use std::collections::{BTreeSet, HashMap, HashSet, VecDeque};
use std::sync::atomic::{AtomicU64, Ordering};

const NS: u64 = 1_000_000_000;
const START_NS: u64 = 1000 * NS;

/// value with a synthetic size: lets KB / MB / GB be told apart without allocating
#[derive(Clone, Debug, PartialEq)]
pub struct Fake {
    pub k: u32,
    pub size: usize,
}
impl MemoryEstimator for Fake {
    fn estimate_memory(&self) -> usize {
        self.size
    }
}
impl Val for Fake {
    const NAME: &'static str = "Fake";
    fn make(key: u8, _variant: u8, payload: usize) -> Self {
        Fake { k: key as u32, size: payload }
    }
    fn ident(&self) -> (u8, u8) {
        (self.k as u8, 0)
    }
    fn footprint(&self) -> usize {
        self.size
    }
    fn storage() -> &'static Storage<Self> {
        static G_MAP: Lazy<RwLock<HashMap<String, CacheEntry<Fake>>>> = Lazy::new(|| RwLock::new(HashMap::new()));
        static G_ORDER: Lazy<Mutex<VecDeque<String>>> = Lazy::new(|| Mutex::new(VecDeque::new()));
        static G_STATS: Lazy<CacheStats> = Lazy::new(CacheStats::new);
        thread_local! {
            static TL_MAP: RefCell<HashMap<String, CacheEntry<Fake>>> = RefCell::new(HashMap::new());
            static TL_ORDER: RefCell<VecDeque<String>> = RefCell::new(VecDeque::new());
        }
        static A_MAP: Lazy<DashMap<String, (Fake, u64, u64)>> = Lazy::new(DashMap::new);
        static A_ORDER: Lazy<Mutex<VecDeque<String>>> = Lazy::new(|| Mutex::new(VecDeque::new()));
        static A_STATS: Lazy<CacheStats> = Lazy::new(CacheStats::new);
        static S: Storage<Fake> = Storage { g_map: &G_MAP, g_order: &G_ORDER, g_stats: &G_STATS, tl_map: &TL_MAP, tl_order: &TL_ORDER, a_map: &A_MAP, a_order: &A_ORDER, a_stats: &A_STATS };
        &S
    }
}

/// receiver of the cached methods of the attribute corpus
#[derive(Clone, Debug, PartialEq)]
pub struct AR {
    pub id: u8,
}
impl cachelito_core::DefaultCacheableKey for AR {}

pub struct AttrFn {
    pub id: u32,
    pub fn_name: &'static str,
    pub reg_name: &'static str,
    pub flavour: Flavour,
    pub attrs: &'static str,
    pub policy: Pol,
    pub limit: Option<usize>,
    pub ttl: Option<u64>,
    pub mem: Option<usize>,
    pub fw: Option<f64>,
    pub tags: &'static [&'static str],
    pub events: &'static [&'static str],
    pub deps: &'static [&'static str],
    pub is_result: bool,
    pub zero_arg: bool,
    pub deep: bool,
    /// `cache_if` accepts only results for even keys / `invalidate_on` calls results for odd keys stale
    pub accept_even_only: bool,
    pub stale_when_odd: bool,
    pub call: fn(u32) -> Fake,
    pub key: fn(u32) -> String,
}

static EXECS: AtomicU64 = AtomicU64::new(0);

/// sizes relative to the intended byte bound: exactly it, one more, half, half plus one
pub fn size_for(k: u32, unit: usize) -> usize {
    if unit == 0 {
        return 32;
    }
    match k {
        1 => unit,
        2 => unit + 1,
        3 => unit / 2,
        _ => unit / 2 + 1,
    }
}

pub fn attr_body(_fid: u32, k: u32, unit: usize) -> Fake {
    EXECS.fetch_add(1, Ordering::SeqCst);
    Fake { k, size: size_for(k, unit) }
}

#[derive(Clone, Debug, PartialEq)]
pub enum AOp {
    Call(u32),
    Tick,
}
impl AOp {
    pub fn render(&self) -> String {
        match self {
            AOp::Call(k) => format!("call {k}"),
            AOp::Tick => "tick".into(),
        }
    }
    pub fn parse(s: &str) -> Option<AOp> {
        let p: Vec<&str> = s.split_whitespace().collect();
        match p.as_slice() {
            ["call", k] => Some(AOp::Call(k.parse().ok()?)),
            ["tick"] => Some(AOp::Tick),
            _ => None,
        }
    }
}

pub struct AFinding {
    pub monitor: String,
    pub detail: String,
}

fn reset_fn(af: &AttrFn) {
    if af.flavour != Flavour::Thread {
        cachelito_core::invalidate_cache(af.reg_name);
        cachelito_core::invalidate_with(af.reg_name, |_| true);
        cachelito_core::stats_registry::reset(af.reg_name);
    }
}

fn cfg_of(af: &AttrFn) -> Config {
    Config { flavour: af.flavour, policy: af.policy, limit: af.limit, ttl: af.ttl, max_memory: af.mem, fw: af.fw, vtype: "Fake" }
}

/// size the twin must store so that its estimate equals what the macro-generated cache sees
fn twin_size(af: &AttrFn, k: u32) -> usize {
    let s = size_for(k, af.mem.unwrap_or(0));
    if af.is_result {
        std::mem::size_of::<Result<Fake, String>>() + s - std::mem::size_of::<Fake>()
    } else {
        s
    }
}

pub fn run_history(af: &AttrFn, hist: &[AOp], prefix: &[usize]) -> ((Vec<String>, Vec<AFinding>), Vec<(usize, usize)>) {
    let body = || -> (Vec<String>, Vec<AFinding>) {
        let mut obs = Vec::new();
        let mut fs = Vec::new();
        vsched::clock_freeze(START_NS);
        reset_fn(af);
        let twin = seqx::make_subject::<Fake>(&cfg_of(af));
        twin.reset();
        for (i, op) in hist.iter().enumerate() {
            match op {
                AOp::Tick => {
                    vsched::clock_advance(NS);
                    obs.push("tick".into());
                }
                AOp::Call(k) => {
                    // a function without arguments has a single key whatever the harness passes
                    let k = &(if af.zero_arg { 1 } else { *k });
                    let mark = vsched::choice_mark();
                    let before = EXECS.load(Ordering::SeqCst);
                    let r = std::panic::catch_unwind(|| (af.call)(*k));
                    let executed = EXECS.load(Ordering::SeqCst) != before;
                    let r = match r {
                        Ok(r) => r,
                        Err(p) => {
                            fs.push(AFinding { monitor: "panic".into(), detail: format!("step {i} {}: {}", op.render(), vsched::describe_panic(&*p)) });
                            obs.push("panic".into());
                            break;
                        }
                    };
                    let want = Fake { k: *k, size: size_for(*k, af.mem.unwrap_or(0)) };
                    if r != want {
                        fs.push(AFinding { monitor: "wrong-value".into(), detail: format!("step {i} {}: returned {:?}, the body returns {:?}", op.render(), r, want) });
                    }
                    let key = (af.key)(*k);
                    let accepted = !af.accept_even_only || *k % 2 == 0;
                    let served = vsched::with_replayed_choices(mark, || match twin.get(&key) {
                        // the intended meaning of invalidate_on: a stale entry is not served, the fresh result replaces it
                        Some(_) if af.stale_when_odd && *k % 2 == 1 => {
                            if accepted {
                                twin.put(&key, Fake { k: *k, size: twin_size(af, *k) });
                            }
                            false
                        }
                        Some(_) => true,
                        None => {
                            // the intended meaning of cache_if: a rejected result is not stored
                            if accepted {
                                twin.put(&key, Fake { k: *k, size: twin_size(af, *k) });
                            }
                            false
                        }
                    });
                    if executed == served {
                        fs.push(AFinding {
                            monitor: "hit-miss-pattern-differs".into(),
                            detail: format!("step {i} {}: the generated function {} its body, the intended configuration ({}) {}", op.render(), if executed { "ran" } else { "did not run" }, cfg_of(af).label(), if served { "serves the call from the cache" } else { "misses" }),
                        });
                    }
                    let mut o = format!("call {k}{}", if executed { "!" } else { "" });
                    if af.flavour != Flavour::Thread {
                        let mine: BTreeSet<String> = l1::list_keys(af.reg_name).unwrap_or_default().into_iter().collect();
                        let theirs: BTreeSet<String> = twin.snap().store.keys().cloned().collect();
                        if mine != theirs {
                            fs.push(AFinding { monitor: "stored-keys-differ".into(), detail: format!("step {i} {}: generated function holds {:?}, the intended configuration ({}) holds {:?}", op.render(), mine, cfg_of(af).label(), theirs) });
                        }
                        o.push_str(&format!("{:?}", mine));
                    }
                    obs.push(o);
                }
            }
        }
        (obs, fs)
    };
    if af.flavour == Flavour::Thread {
        let prefix = prefix.to_vec();
        std::thread::scope(|sc| sc.spawn(move || vsched::run_with_choices(&prefix, body)).join().unwrap_or_else(|_| vsched::machinery_failure("history thread panicked")))
    } else {
        vsched::run_with_choices(prefix, body)
    }
}

/// name / tags / events / dependencies / scope take effect as written (checked once per function)
pub fn registration_checks(af: &AttrFn) -> Vec<AFinding> {
    let mut fs = Vec::new();
    vsched::clock_freeze(START_NS);
    let call = |k: u32| {
        vsched::run_with_choices(&[], || {
            let _ = (af.call)(k);
        });
    };
    if af.flavour == Flavour::Thread {
        std::thread::scope(|sc| {
            sc.spawn(|| call(1)).join().ok();
        });
        if l1::list_keys(af.reg_name).is_some() || l1::list_keys(af.fn_name).is_some() {
            fs.push(AFinding { monitor: "thread-scope-registered-globally".into(), detail: format!("{} has scope = \"thread\" but answers to invalidate_with", af.fn_name) });
        }
        return fs;
    }
    call(1);
    if l1::stats_of(af.reg_name).is_none() || l1::list_keys(af.reg_name).is_none() {
        fs.push(AFinding { monitor: "not-registered-under-its-name".into(), detail: format!("{}: nothing registered under {:?}", af.fn_name, af.reg_name) });
    }
    if af.reg_name != af.fn_name && (l1::stats_of(af.fn_name).is_some() || l1::list_keys(af.fn_name).is_some()) {
        fs.push(AFinding { monitor: "registered-under-function-name".into(), detail: format!("{} declares name = {:?} but is also registered under the function name", af.fn_name, af.reg_name) });
    }
    let kinds: [(&str, &[&str], fn(&str) -> usize); 3] = [
        ("tag", af.tags, |x| cachelito_core::invalidate_by_tag(x)),
        ("event", af.events, |x| cachelito_core::invalidate_by_event(x)),
        ("dependency", af.deps, |x| cachelito_core::invalidate_by_dependency(x)),
    ];
    for (kind, declared, inv) in kinds {
        for d in declared.iter().filter(|d| **d != "rst") {
            call(1);
            let before = l1::list_keys(af.reg_name).unwrap_or_default();
            let n = inv(d);
            let after = l1::list_keys(af.reg_name).unwrap_or_default();
            if n != 1 || before.is_empty() || !after.is_empty() {
                fs.push(AFinding { monitor: format!("{kind}-has-no-effect"), detail: format!("{}: invalidate_by_{kind}({d:?}) returned {n}, keys {:?} -> {:?}", af.fn_name, before, after) });
            }
        }
        // an undeclared name touches nothing
        call(1);
        let before = l1::list_keys(af.reg_name).unwrap_or_default();
        let bogus = format!("zz{}", af.id);
        let n = inv(&bogus);
        if n != 0 || l1::list_keys(af.reg_name).unwrap_or_default() != before {
            fs.push(AFinding { monitor: format!("undeclared-{kind}-matched"), detail: format!("{}: invalidate_by_{kind}({bogus:?}) returned {n}", af.fn_name) });
        }
    }
    fs
}

#[derive(Default)]
pub struct AttrResult {
    pub histories: u64,
    pub runs: u64,
    pub steps: u64,
    pub distinct_obs: usize,
    pub violations: Vec<Violation>,
    pub sample: J,
}

pub fn alphabet(af: &AttrFn) -> (Vec<AOp>, usize, usize) {
    let mut a: Vec<AOp> = if af.deep { (1..=3).map(AOp::Call).collect() } else { (1..=4).map(AOp::Call).collect() };
    if af.ttl.is_some() {
        a.push(AOp::Tick);
    }
    if af.deep {
        (a, 6, 7)
    } else {
        (a, 4, 5)
    }
}

pub fn replay_json(af: &AttrFn, hist: &[AOp], choices: &[usize]) -> J {
    J::obj()
        .set("engine", "cfgx")
        .set("function", af.id as usize)
        .set("attributes", af.attrs)
        .set("intended", cfg_of(af).to_json())
        .set("ops", J::Arr(hist.iter().map(|o| J::Str(o.render())).collect()))
        .set("choices", J::Arr(choices.iter().map(|c| J::Int(*c as i64)).collect()))
}

pub fn explore_attr(af: &AttrFn, thorough: bool) -> AttrResult {
    let mut res = AttrResult::default();
    let mut per_sig: HashMap<String, usize> = HashMap::new();
    let mut seen: HashSet<(u64, u64)> = HashSet::new();
    let mut report = |res: &mut AttrResult, f: AFinding, hist: &[AOp], choices: &[usize]| {
        let sig = format!("C19/{}/{}", af.flavour.name(), f.monitor);
        let c = per_sig.entry(sig.clone()).or_insert(0);
        *c += 1;
        if *c <= 1 {
            res.violations.push(Violation {
                property: "C19",
                signature: sig,
                detail: format!("{} | #[{}({})] fn {} | history {:?} choices {:?}", f.detail, if af.flavour == Flavour::Async { "cache_async" } else { "cache" }, af.attrs, af.fn_name, hist.iter().map(|o| o.render()).collect::<Vec<_>>(), choices),
                replay: replay_json(af, hist, choices),
            });
        }
    };
    for f in registration_checks(af) {
        report(&mut res, f, &[], &[]);
    }
    let (alpha, dq, dt) = alphabet(af);
    let depth = if thorough { dt } else { dq };
    let n = alpha.len();
    let mut idx = vec![0usize; depth];
    // determinism self-check
    {
        let hist: Vec<AOp> = idx.iter().map(|i| alpha[*i].clone()).collect();
        let a = run_history(af, &hist, &[]).0 .0;
        let b = run_history(af, &hist, &[]).0 .0;
        if a != b {
            vsched::machinery_failure(&format!("attribute function {} is not deterministic", af.fn_name));
        }
    }
    'outer: loop {
        let hist: Vec<AOp> = idx.iter().map(|i| alpha[*i].clone()).collect();
        res.histories += 1;
        let mut prefix: Vec<usize> = Vec::new();
        loop {
            let ((obs, fs), trace) = run_history(af, &hist, &prefix);
            res.runs += 1;
            res.steps += obs.len() as u64;
            let mut acc = String::new();
            for o in &obs {
                acc.push_str(o);
                acc.push(';');
                seen.insert(key128(&acc));
            }
            let choices: Vec<usize> = trace.iter().map(|t| t.0).collect();
            for f in fs {
                report(&mut res, f, &hist, &choices);
            }
            if res.histories == 7 && prefix.is_empty() {
                res.sample = J::obj().set("function", af.fn_name).set("attributes", af.attrs).set("intended", cfg_of(af).label()).set("history", J::Arr(hist.iter().map(|o| J::Str(o.render())).collect())).set("observed", J::Arr(obs.iter().map(|o| J::Str(o.clone())).collect()));
            }
            match vsched::next_prefix(&trace, 0) {
                Some(p) => prefix = p,
                None => break,
            }
        }
        let mut p = depth;
        loop {
            if p == 0 {
                break 'outer;
            }
            p -= 1;
            idx[p] += 1;
            if idx[p] < n {
                break;
            }
            idx[p] = 0;
        }
    }
    res.distinct_obs = seen.len();
    res
}
