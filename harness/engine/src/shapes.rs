//! Runtime for the C02 signature shapes (`shapes_gen.rs`): argument domains, user key types,
//! execution counter and the per-shape observation context.
use cachelito_core::DefaultCacheableKey;
use std::collections::HashMap;
use std::sync::atomic::{AtomicU64, Ordering};

pub static EXECS: AtomicU64 = AtomicU64::new(0);
pub fn exec() {
    EXECS.fetch_add(1, Ordering::Relaxed);
}

#[derive(Clone, Debug, PartialEq)]
pub struct P {
    pub a: u8,
    pub b: String,
}
#[derive(Clone, Debug, PartialEq)]
pub enum E {
    A,
    B(u8),
    C { x: String },
}
#[derive(Clone, Debug, PartialEq)]
pub struct W(pub u8, pub u8);
/// receiver of the cached methods
#[derive(Clone, Debug, PartialEq)]
pub struct R {
    pub id: u8,
    pub name: String,
}
impl DefaultCacheableKey for P {}
impl DefaultCacheableKey for E {}
impl DefaultCacheableKey for W {}
impl DefaultCacheableKey for R {}

pub struct Shape {
    pub name: &'static str,
    pub signature: &'static str,
    pub is_async: bool,
    pub is_method: bool,
    pub run: fn(&mut ShapeCtx),
}

pub struct ShapeCtx {
    pub thorough: bool,
    pub evals: u64,
    pub mismatches: Vec<(String, String)>,
    pub naive_groups: HashMap<String, u32>,
    pub first: Option<String>,
    pub last: Option<String>,
    /// renderings of the argument tuples seen so far: the domains must produce pairwise distinct tuples
    pub seen: std::collections::HashSet<String>,
    pub duplicate_tuples: u64,
}

impl ShapeCtx {
    pub fn new(thorough: bool) -> ShapeCtx {
        ShapeCtx { thorough, evals: 0, mismatches: Vec::new(), naive_groups: HashMap::new(), first: None, last: None, seen: std::collections::HashSet::new(), duplicate_tuples: 0 }
    }
    pub fn observe(&mut self, want: &str, got: &str, naive: String) {
        self.evals += 1;
        if !self.seen.insert(want.to_string()) {
            self.duplicate_tuples += 1;
        }
        if want != got && self.mismatches.len() < 3 {
            self.mismatches.push((want.to_string(), got.to_string()));
        }
        *self.naive_groups.entry(naive).or_insert(0) += 1;
        if self.first.is_none() {
            self.first = Some(want.to_string());
        }
        if self.evals % 997 == 0 || self.last.is_none() {
            self.last = Some(want.to_string());
        }
    }
    /// tuples that stay apart only thanks to delimiters / quoting / structure
    pub fn nontrivial(&self) -> u64 {
        self.naive_groups.values().filter(|c| **c >= 2).map(|c| *c as u64).sum()
    }
}

/// what is left of a Debug rendering when every delimiter is dropped
pub fn naive(s: &str) -> String {
    s.chars().filter(|c| c.is_alphanumeric()).collect()
}

// ---------------------------------------------------------------------------------------------
// domains (pairwise distinct elements by construction)
// ---------------------------------------------------------------------------------------------

pub fn d_u8(_t: bool) -> Vec<u8> {
    vec![0, 1, 2, 3, 12, 23, 123]
}
pub fn d_small(_t: bool) -> Vec<u8> {
    vec![1, 2, 12, 21]
}
pub fn d_i32(_t: bool) -> Vec<i32> {
    vec![0, 1, -1, 2, 12, 23, 123, -12, 3, -123]
}
pub fn d_u64(_t: bool) -> Vec<u64> {
    vec![0, 1, 2, 12, 23, 123, 1212]
}
pub fn d_i128(_t: bool) -> Vec<i128> {
    vec![0, 1, -1, 12, 2, -12, 112]
}
pub fn d_f64(_t: bool) -> Vec<f64> {
    // incl. pairs that agree to six (and to fifteen) decimals, and magnitudes a fixed-precision rendering rounds to zero
    vec![0.0, 1.0, 1.5, f64::INFINITY, -1.0, 10.0, 0.1, 11.5, 0.1234567, 0.1234568, 3e-7, 4.0000001, 4.0000002, 1e-300, 0.30000000000000004, 0.3]
}
pub fn d_bool(_t: bool) -> Vec<bool> {
    vec![false, true]
}
/// Long arguments: lengths around the sizes at which an implementation might switch to a shortened or digested
/// key (64, 128, 192, 256 ...). `long(n, 0)` is the base string of length n, variant 1 differs in the last
/// character only, variant 2 in the first only, variant 3 is one character longer.
pub fn long(n: usize, variant: u8) -> String {
    let mut s: String = (0..n).map(|i| char::from(b'a' + (i % 23) as u8)).collect();
    match variant {
        1 => {
            s.pop();
            s.push('#');
        }
        2 => {
            s.remove(0);
            s.insert(0, '#');
        }
        3 => s.push('x'),
        _ => {}
    }
    s
}
const LONG_LENGTHS: [usize; 4] = [70, 200, 300, 1100];
const LONGER_LENGTHS: [usize; 2] = [4200, 70_000];

const ALPHA: [char; 8] = ['a', '|', '"', '\\', '\'', ' ', ',', '\n'];
pub fn d_char(_t: bool) -> Vec<char> {
    let mut v = ALPHA.to_vec();
    v.push('1');
    v
}
pub fn d_string(thorough: bool) -> Vec<String> {
    let maxlen = if thorough { 3 } else { 2 };
    let mut out = vec![String::new()];
    let mut layer = vec![String::new()];
    for _ in 0..maxlen {
        let mut next = Vec::new();
        for s in &layer {
            for c in ALPHA {
                let mut t = s.clone();
                t.push(c);
                next.push(t);
            }
        }
        out.extend(next.iter().cloned());
        layer = next;
    }
    for extra in ["1", "12", "1|2", "\"|\""] {
        // (the last one is already among the length-3 strings: domains must stay pairwise distinct)
        if !out.iter().any(|x| x == extra) {
            out.push(extra.into());
        }
    }
    for n in LONG_LENGTHS {
        for v in 0..4 {
            out.push(long(n, v));
        }
    }
    if thorough {
        for n in LONGER_LENGTHS {
            for v in 0..4 {
                out.push(long(n, v));
            }
        }
    }
    out
}
pub fn d_opt_u8(_t: bool) -> Vec<Option<u8>> {
    vec![None, Some(0), Some(1), Some(12), Some(2)]
}
pub fn d_opt_string(_t: bool) -> Vec<Option<String>> {
    let mut v = vec![None];
    for s in ["", "a", "|", "None", "Some(\"a\")", "\"", "a\")", "\\"] {
        v.push(Some(s.to_string()));
    }
    v.push(Some(long(200, 0)));
    v.push(Some(long(200, 1)));
    v
}
pub fn d_vec_u8(_t: bool) -> Vec<Vec<u8>> {
    let mut v = vec![vec![], vec![1], vec![1, 2], vec![12], vec![1, 2, 3], vec![12, 3], vec![1, 23], vec![2], vec![0]];
    for n in [70usize, 300] {
        let base = vec![7u8; n];
        let mut last = base.clone();
        last[n - 1] = 8;
        let mut first = base.clone();
        first[0] = 8;
        v.push(base);
        v.push(last);
        v.push(first);
    }
    v
}
pub fn d_vec_string(_t: bool) -> Vec<Vec<String>> {
    let s = |x: &str| x.to_string();
    vec![vec![], vec![s("")], vec![s("a")], vec![s("a"), s("b")], vec![s("a, b")], vec![s("a\", \"b")], vec![s("a|b")], vec![s("a"), s("|b")], vec![s(""), s("")], vec![long(200, 0), s("a")], vec![long(200, 0), s("b")], vec![long(200, 3)]]
}
pub fn d_pair(_t: bool) -> Vec<(u8, u8)> {
    vec![(0, 0), (1, 2), (12, 3), (1, 23), (2, 1), (1, 1)]
}
pub fn d_spair(_t: bool) -> Vec<(String, u8)> {
    let s = |x: &str| x.to_string();
    vec![(s(""), 0), (s("a"), 1), (s("a\", 1"), 1), (s("|"), 2), (s("a"), 12), (s("a1"), 2), (long(200, 0), 1), (long(200, 0), 2), (long(200, 1), 1)]
}
pub fn d_nested(_t: bool) -> Vec<(u8, (u8, u8))> {
    vec![(0, (0, 0)), (1, (2, 3)), (12, (3, 1)), (1, (23, 1)), (1, (2, 31))]
}
pub fn d_opt_vec(_t: bool) -> Vec<Option<Vec<u8>>> {
    vec![None, Some(vec![]), Some(vec![1]), Some(vec![1, 2]), Some(vec![12])]
}
pub fn d_vec_opt(_t: bool) -> Vec<Vec<Option<u8>>> {
    vec![vec![], vec![None], vec![Some(1)], vec![Some(1), None], vec![None, Some(1)], vec![Some(12)], vec![Some(1), Some(2)]]
}
pub fn d_p(_t: bool) -> Vec<P> {
    let s = |x: &str| x.to_string();
    vec![P { a: 0, b: s("") }, P { a: 1, b: s("x") }, P { a: 1, b: s("x\" }") }, P { a: 12, b: s("|") }, P { a: 1, b: s("2") }, P { a: 12, b: s("") }]
}
pub fn d_e(_t: bool) -> Vec<E> {
    let s = |x: &str| x.to_string();
    vec![E::A, E::B(0), E::B(12), E::C { x: s("") }, E::C { x: s("A") }, E::C { x: s("B(0)") }, E::B(1)]
}
pub fn d_w(_t: bool) -> Vec<W> {
    vec![W(0, 0), W(1, 2), W(12, 3), W(1, 23), W(2, 1)]
}
pub fn d_r(_t: bool) -> Vec<R> {
    let s = |x: &str| x.to_string();
    vec![R { id: 0, name: s("") }, R { id: 1, name: s("r") }, R { id: 2, name: s("r") }, R { id: 1, name: s("r|1") }, R { id: 12, name: s("|") }, R { id: 1, name: s("2") }, R { id: 1, name: long(200, 0) }, R { id: 1, name: long(200, 1) }]
}

pub fn d_i8(_t: bool) -> Vec<i8> {
    vec![0, 1, -1, 12, -12, 2, 127, -128]
}
pub fn d_u16(_t: bool) -> Vec<u16> {
    vec![0, 1, 12, 123, 23, 3, 65535]
}
pub fn d_u32(_t: bool) -> Vec<u32> {
    vec![0, 1, 2, 12, 23, 123, 3]
}
pub fn d_i64(_t: bool) -> Vec<i64> {
    vec![0, 1, -1, 12, -12, 123, i64::MIN]
}
pub fn d_u128(_t: bool) -> Vec<u128> {
    vec![0, 1, 12, 2, 123, u128::MAX]
}
pub fn d_usize(_t: bool) -> Vec<usize> {
    vec![0, 1, 12, 2, 21]
}
pub fn d_isize(_t: bool) -> Vec<isize> {
    vec![0, 1, -1, 12, -12, 2]
}
pub fn d_f32(_t: bool) -> Vec<f32> {
    vec![0.0, 1.0, 1.5, 10.0, 0.1, -1.0, f32::INFINITY, 0.1234567, 0.1234568, 3e-7, 1e-30]
}
pub fn d_triple(_t: bool) -> Vec<(u8, u8, u8)> {
    vec![(0, 0, 0), (1, 2, 3), (12, 3, 1), (1, 23, 1), (1, 2, 31), (12, 31, 0)]
}
pub fn d_quint(_t: bool) -> Vec<(u8, u8, u8, u8, u8)> {
    let mut v = Vec::new();
    for a in [1u8, 12] {
        for b in [2u8, 21] {
            for c in [1u8, 2] {
                for d in [1u8, 12] {
                    for e in [1u8, 2, 21] {
                        v.push((a, b, c, d, e));
                    }
                }
            }
        }
    }
    v
}
pub fn d_vec_vec(_t: bool) -> Vec<Vec<Vec<u8>>> {
    vec![vec![], vec![vec![]], vec![vec![], vec![]], vec![vec![1]], vec![vec![1], vec![2]], vec![vec![1, 2]], vec![vec![12]], vec![vec![1], vec![]], vec![vec![], vec![1]]]
}
pub fn d_opt_opt(_t: bool) -> Vec<Option<Option<u8>>> {
    vec![None, Some(None), Some(Some(0)), Some(Some(1)), Some(Some(12))]
}
pub fn d_vec_pair(_t: bool) -> Vec<Vec<(u8, u8)>> {
    vec![vec![], vec![(1, 2)], vec![(12, 3)], vec![(1, 23)], vec![(1, 2), (3, 4)], vec![(1, 2), (34, 0)], vec![(12, 3), (4, 0)]]
}
pub fn d_opt_spair(_t: bool) -> Vec<Option<(String, u8)>> {
    let s = |x: &str| x.to_string();
    vec![None, Some((s(""), 0)), Some((s("a"), 1)), Some((s("a\", 1"), 1)), Some((s("None"), 0)), Some((s("a"), 12)), Some((s("a1"), 2))]
}
pub fn d_cb(_t: bool) -> Vec<(char, bool)> {
    vec![('a', true), ('a', false), ('|', true), ('\'', false), ('"', true), (',', false), (' ', true)]
}
pub fn d_single(_t: bool) -> Vec<(String,)> {
    let mut v: Vec<(String,)> = ["", "a", "|", "a|", "\"", "a\",", "(", ",)"].iter().map(|x| (x.to_string(),)).collect();
    v.push((long(200, 0),));
    v.push((long(200, 1),));
    v
}
