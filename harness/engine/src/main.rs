use cachelito_core::{CacheEntry, CacheStats, EvictionPolicy, GlobalCache};
use once_cell::sync::Lazy;
use parking_lot::{Mutex, RwLock};
use std::collections::{HashMap, VecDeque};
use vsched::{RwPolicy, Thunk};

fn main() {
    vsched::install_quiet_panic_hook();
    cachelito_core::verif_hooks::install(vsched::clock_now, vsched::atomic_point);
    let map: &'static Lazy<RwLock<HashMap<String, CacheEntry<u32>>>> =
        Box::leak(Box::new(Lazy::new((|| RwLock::new(HashMap::new())) as fn() -> _)));
    let order: &'static Lazy<Mutex<VecDeque<String>>> = Box::leak(Box::new(Lazy::new((|| Mutex::new(VecDeque::new())) as fn() -> _)));
    let stats: &'static Lazy<CacheStats> = Box::leak(Box::new(Lazy::new(CacheStats::new as fn() -> _)));
    for bound in 0..4 {
        let t0 = std::time::Instant::now();
        let mut dl = 0;
        let st = vsched::explore(
            bound,
            RwPolicy::ReadersBarge,
            u64::MAX,
            &mut || {
                map.write().clear();
                order.lock().clear();
                let a: Thunk = Box::new(move || {
                    let c = GlobalCache::new(map, order, Some(1), None, EvictionPolicy::LRU, None, None, stats);
                    c.insert("a", 1);
                    c.insert("b", 2);
                });
                let b: Thunk = Box::new(move || {
                    let mut m = map.write();
                    let mut o = order.lock();
                    m.clear();
                    o.clear();
                });
                vec![a, b]
            },
            &mut |out| {
                if out.deadlock.is_some() {
                    dl += 1;
                    if dl == 1 {
                        println!("{:#?}\n{:#?}", out.deadlock, out.render_schedule());
                    }
                }
                true
            },
        );
        println!("bound {bound}: {:?} deadlocks={dl} in {:?}", st, t0.elapsed());
    }
}
