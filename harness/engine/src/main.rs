mod attrs_gen;
mod cfgx;
mod cold;
mod common;
mod corpus_gen;
mod json;
mod l1;
mod macx;
mod seqx;
mod shapes;
mod shapes_gen;
mod thrx;
mod vals;

use common::*;
use json::J;
use vals::Val;

fn seqx_run_type<V: Val>(property: &str, thorough: bool, shard: (usize, usize), counter: &mut usize, state_cap: u64) {
    for spec in seqx::specs_for::<V>(property, thorough) {
        let idx = *counter;
        *counter += 1;
        if idx % shard.1 != shard.0 {
            continue;
        }
        let t0 = std::time::Instant::now();
        let r = seqx::explore_config::<V>(&spec, property, state_cap);
        let kinds = J::Obj(r.kinds.iter().map(|(k, v)| (k.clone(), J::Int(*v as i64))).collect());
        emit(
            "CONFIG",
            J::obj()
                .set("config", spec.to_json())
                .set("label", match spec.tick_ns { Some(t) if t == seqx::NS && spec.cfg.flavour == common::Flavour::Async => format!("{}/tick=1s", spec.cfg.label()), _ => spec.cfg.label() })
                .set("states", r.states)
                .set("transitions", r.transitions)
                .set("depth_completed", r.depth_completed)
                .set("closure", r.closure)
                .set("state_cap_hit", r.state_cap_hit)
                .set("random_branches", r.random_branches)
                .set("kinds", kinds)
                .set("samples", J::Arr(r.samples.clone()))
                .set("wall_s", t0.elapsed().as_secs_f64()),
        );
        for v in &r.violations {
            emit("VIOLATION", v.to_json());
        }
    }
}

fn seqx_main(args: &Args) -> i32 {
    if let Some(path) = args.get("replay") {
        return seqx_replay(path, args.get("property").unwrap_or(""));
    }
    let property = args.get("property").expect("--property").to_string();
    let thorough = args.get("tier") == Some("thorough");
    let shard = args.shard();
    let state_cap = args.usize("state-cap", 400_000) as u64;
    let mut counter = 0usize;
    seqx_run_type::<String>(&property, thorough, shard, &mut counter, state_cap);
    if property == "C05" {
        // the memory estimator is per type: owned-heap containers, nesting, tuples of unequal inline sizes
        seqx_run_type::<Vec<String>>(&property, thorough, shard, &mut counter, state_cap);
        seqx_run_type::<Option<String>>(&property, thorough, shard, &mut counter, state_cap);
        seqx_run_type::<(u32, String, Box<String>)>(&property, thorough, shard, &mut counter, state_cap);
        seqx_run_type::<(u8, u8, String)>(&property, thorough, shard, &mut counter, state_cap);
        // a user type reporting its own figure, and a heap-allocated container of heap-owning elements
        seqx_run_type::<crate::vals::UserBlob>(&property, thorough, shard, &mut counter, state_cap);
        seqx_run_type::<Box<Vec<String>>>(&property, thorough, shard, &mut counter, state_cap);
        if thorough {
            seqx_run_type::<Option<(String, Vec<u8>)>>(&property, thorough, shard, &mut counter, state_cap);
            seqx_run_type::<Result<Vec<u8>, String>>(&property, thorough, shard, &mut counter, state_cap);
            seqx_run_type::<Vec<Box<String>>>(&property, thorough, shard, &mut counter, state_cap);
            seqx_run_type::<Vec<u8>>(&property, thorough, shard, &mut counter, state_cap);
            seqx_run_type::<Result<String, String>>(&property, thorough, shard, &mut counter, state_cap);
            seqx_run_type::<(String, Vec<u8>)>(&property, thorough, shard, &mut counter, state_cap);
            seqx_run_type::<Box<String>>(&property, thorough, shard, &mut counter, state_cap);
            seqx_run_type::<Vec<Vec<u8>>>(&property, thorough, shard, &mut counter, state_cap);
            seqx_run_type::<(String, Option<String>)>(&property, thorough, shard, &mut counter, state_cap);
            seqx_run_type::<Option<Vec<u8>>>(&property, thorough, shard, &mut counter, state_cap);
            seqx_run_type::<Vec<Option<String>>>(&property, thorough, shard, &mut counter, state_cap);
            seqx_run_type::<(String, String, String)>(&property, thorough, shard, &mut counter, state_cap);
            seqx_run_type::<Vec<(String, u8)>>(&property, thorough, shard, &mut counter, state_cap);
        }
    }
    if property == "C16" && thorough {
        seqx_run_type::<Vec<String>>(&property, thorough, shard, &mut counter, state_cap);
        seqx_run_type::<(u8, u8, String)>(&property, thorough, shard, &mut counter, state_cap);
    }
    emit("DONE", J::obj().set("configs_total", counter));
    0
}

fn spec_from_json(c: &J) -> Option<seqx::Spec> {
    let cfg = Config {
        flavour: Flavour::parse(c.get("flavour")?.as_str()?)?,
        policy: Pol::parse(c.get("policy")?.as_str()?)?,
        limit: c.get("limit").and_then(|x| x.as_i64()).map(|x| x as usize),
        ttl: c.get("ttl").and_then(|x| x.as_i64()).map(|x| x as u64),
        max_memory: c.get("max_memory").and_then(|x| x.as_i64()).map(|x| x as usize),
        fw: c.get("frequency_weight").and_then(|x| x.as_f64()),
        vtype: "",
    };
    let variants = c
        .get("variants")?
        .as_arr()?
        .iter()
        .filter_map(|p| {
            let a = p.as_arr()?;
            Some((a[0].as_i64()? as u8, a[1].as_i64()? as usize))
        })
        .collect();
    Some(seqx::Spec {
        cfg,
        nkeys: c.get("keys")?.as_i64()? as u8,
        variants,
        depth: c.get("depth")?.as_i64()? as usize,
        tick_ns: c.get("tick_ns").and_then(|x| x.as_i64()).map(|x| x as u64),
        include_stats: matches!(c.get("stats_in_state"), Some(J::Bool(true))),
    })
}

fn seqx_replay_typed<V: Val>(spec: &seqx::Spec, ops: &[(seqx::Op, Vec<usize>)], property: &str) -> (Vec<String>, bool) {
    let mut lines = Vec::new();
    let mut bad = false;
    let mut runner = seqx::Runner::<V>::new(spec);
    for (op, ch) in ops {
        let (o, _) = vsched::run_with_choices(ch, || runner.apply(*op, true));
        let snap = if o.panicked { seqx::Snap::default() } else { runner.subj.snap() };
        lines.push(format!(
            "{:<12} -> {:<10} store={:?} queue={:?} stats=({},{})",
            op.render(),
            o.result,
            snap.store.iter().map(|(k, e)| format!("{k}=v{} hits={} age={}s", e.ident.1, e.hits, e.age_ns as f64 / 1e9)).collect::<Vec<_>>(),
            snap.order,
            snap.hits,
            snap.misses
        ));
        for f in &o.findings {
            lines.push(format!("    FINDING {}/{}: {}", f.property, f.monitor, f.detail));
            if property.is_empty() || f.property == property {
                bad = true;
            }
        }
        if o.panicked {
            break;
        }
    }
    (lines, bad)
}

fn seqx_replay(path: &str, property: &str) -> i32 {
    let src = std::fs::read_to_string(path).expect("read replay file");
    let j = json::parse(&src).expect("parse replay file");
    let j = j.get("replay").cloned().unwrap_or(j);
    let c = j.get("config").expect("config");
    let spec = spec_from_json(c).expect("spec");
    let ops: Vec<seqx::Op> = j.get("ops").and_then(|x| x.as_arr()).unwrap().iter().map(|o| seqx::Op::parse(o.as_str().unwrap()).unwrap()).collect();
    let choices: Vec<Vec<usize>> = j
        .get("choices")
        .and_then(|x| x.as_arr())
        .unwrap()
        .iter()
        .map(|a| a.as_arr().unwrap().iter().map(|x| x.as_i64().unwrap() as usize).collect())
        .collect();
    let hist: Vec<(seqx::Op, Vec<usize>)> = ops.into_iter().zip(choices).collect();
    let vt = c.get("value_type").and_then(|x| x.as_str()).unwrap_or("String").to_string();
    let run = |spec: &seqx::Spec| match vt.as_str() {
        "Vec<u8>" => seqx_replay_typed::<Vec<u8>>(spec, &hist, property),
        "Vec<String>" => seqx_replay_typed::<Vec<String>>(spec, &hist, property),
        "Option<String>" => seqx_replay_typed::<Option<String>>(spec, &hist, property),
        "Result<String,String>" => seqx_replay_typed::<Result<String, String>>(spec, &hist, property),
        "(String,Vec<u8>)" => seqx_replay_typed::<(String, Vec<u8>)>(spec, &hist, property),
        "Box<String>" => seqx_replay_typed::<Box<String>>(spec, &hist, property),
        "Vec<(String,u8)>" => seqx_replay_typed::<Vec<(String, u8)>>(spec, &hist, property),
        "UserBlob" => seqx_replay_typed::<crate::vals::UserBlob>(spec, &hist, property),
        "Box<Vec<String>>" => seqx_replay_typed::<Box<Vec<String>>>(spec, &hist, property),
        "Option<(String,Vec<u8>)>" => seqx_replay_typed::<Option<(String, Vec<u8>)>>(spec, &hist, property),
        "Result<Vec<u8>,String>" => seqx_replay_typed::<Result<Vec<u8>, String>>(spec, &hist, property),
        "Vec<Box<String>>" => seqx_replay_typed::<Vec<Box<String>>>(spec, &hist, property),
        "(String,String,String)" => seqx_replay_typed::<(String, String, String)>(spec, &hist, property),
        "Vec<Option<String>>" => seqx_replay_typed::<Vec<Option<String>>>(spec, &hist, property),
        "Option<Vec<u8>>" => seqx_replay_typed::<Option<Vec<u8>>>(spec, &hist, property),
        "(String,Option<String>)" => seqx_replay_typed::<(String, Option<String>)>(spec, &hist, property),
        "Vec<Vec<u8>>" => seqx_replay_typed::<Vec<Vec<u8>>>(spec, &hist, property),
        "(u8,u8,String)" => seqx_replay_typed::<(u8, u8, String)>(spec, &hist, property),
        "(u32,String,Box<String>)" => seqx_replay_typed::<(u32, String, Box<String>)>(spec, &hist, property),
        _ => seqx_replay_typed::<String>(spec, &hist, property),
    };
    let (a, bad_a) = run(&spec);
    let (b, bad_b) = run(&spec);
    for l in &a {
        println!("{l}");
    }
    if a != b || bad_a != bad_b {
        println!("MACHINERY-FAILURE: replay is not deterministic");
        return 3;
    }
    println!("replayed twice with identical observations; violation reproduced: {bad_a}");
    if bad_a {
        1
    } else {
        0
    }
}

fn cfgx_main(args: &Args) -> i32 {
    if let Some(path) = args.get("replay") {
        let src = std::fs::read_to_string(path).expect("read replay file");
        let j = json::parse(&src).expect("parse replay file");
        let j = j.get("replay").cloned().unwrap_or(j);
        let fid = j.get("function").and_then(|x| x.as_i64()).expect("function") as u32;
        let af = attrs_gen::ATTRS.iter().find(|a| a.id == fid).expect("attribute function");
        let ops: Vec<cfgx::AOp> = j.get("ops").and_then(|x| x.as_arr()).unwrap().iter().filter_map(|o| cfgx::AOp::parse(o.as_str()?)).collect();
        let choices: Vec<usize> = j.get("choices").and_then(|x| x.as_arr()).unwrap().iter().map(|x| x.as_i64().unwrap() as usize).collect();
        let mut runs = Vec::new();
        for _ in 0..2 {
            let mut lines: Vec<String> = cfgx::registration_checks(af).into_iter().map(|f| format!("    FINDING C19/{}: {}", f.monitor, f.detail)).collect();
            let ((obs, fs), _) = cfgx::run_history(af, &ops, &choices);
            lines.extend(ops.iter().zip(obs.iter()).map(|(o, x)| format!("{:<10} -> {x}", o.render())));
            lines.extend(fs.iter().map(|f| format!("    FINDING C19/{}: {}", f.monitor, f.detail)));
            runs.push(lines);
        }
        println!("#[..({})] fn {}", af.attrs, af.fn_name);
        for l in &runs[0] {
            println!("{l}");
        }
        if runs[0] != runs[1] {
            println!("MACHINERY-FAILURE: replay is not deterministic");
            return 3;
        }
        let bad = runs[0].iter().any(|l| l.contains("FINDING"));
        println!("replayed twice with identical observations; violation reproduced: {bad}");
        return if bad { 1 } else { 0 };
    }
    let thorough = args.get("tier") == Some("thorough");
    let shard = args.shard();
    for (i, af) in attrs_gen::ATTRS.iter().enumerate() {
        if i % shard.1 != shard.0 {
            continue;
        }
        let t0 = std::time::Instant::now();
        let r = cfgx::explore_attr(af, thorough);
        emit(
            "ATTR",
            J::obj()
                .set("function", af.fn_name)
                .set("flavour", af.flavour.name())
                .set("attributes", af.attrs)
                .set("histories", r.histories)
                .set("runs", r.runs)
                .set("steps", r.steps)
                .set("distinct_observations", r.distinct_obs)
                .set("sample", r.sample.clone())
                .set("wall_s", t0.elapsed().as_secs_f64()),
        );
        for v in &r.violations {
            emit("VIOLATION", v.to_json());
        }
    }
    emit("DONE", J::obj().set("functions_total", attrs_gen::ATTRS.len()));
    0
}

fn shapex_run(sh: &shapes::Shape, thorough: bool) -> (shapes::ShapeCtx, u64, shapes::ShapeCtx, u64, Option<usize>) {
    use std::sync::atomic::Ordering;
    shapes::EXECS.store(0, Ordering::SeqCst);
    // the two passes run on two different OS threads (one after the other): what the first stored the second
    // must be served, whatever the arguments look like (C14, global scope shares)
    let run = sh.run;
    let c1 = std::thread::spawn(move || {
        let mut c = shapes::ShapeCtx::new(thorough);
        run(&mut c);
        c
    })
    .join()
    .unwrap_or_else(|_| vsched::machinery_failure("shape pass panicked"));
    let e1 = shapes::EXECS.swap(0, Ordering::SeqCst);
    let c2 = std::thread::spawn(move || {
        let mut c = shapes::ShapeCtx::new(thorough);
        run(&mut c);
        c
    })
    .join()
    .unwrap_or_else(|_| vsched::machinery_failure("shape pass panicked"));
    let e2 = shapes::EXECS.swap(0, Ordering::SeqCst);
    let listed = l1::list_keys(sh.name).map(|v| v.len());
    (c1, e1, c2, e2, listed)
}

fn shapex_main(args: &Args) -> i32 {
    let thorough = args.get("tier") == Some("thorough");
    let only = args.get("shape").map(|s| s.to_string());
    let shard = args.shard();
    for (i, sh) in shapes_gen::SHAPES.iter().enumerate() {
        if let Some(o) = &only {
            if sh.name != o {
                continue;
            }
        } else if i % shard.1 != shard.0 {
            continue;
        }
        let t0 = std::time::Instant::now();
        let (c1, e1, c2, e2, listed) = shapex_run(sh, thorough);
        if c1.duplicate_tuples > 0 {
            vsched::machinery_failure(&format!("shape {} {}: the argument domains produced {} duplicate tuples (harness error, not a verdict)", sh.name, sh.signature, c1.duplicate_tuples));
        }
        let mut problems: Vec<(String, String)> = Vec::new();
        if e1 != c1.evals {
            problems.push(("shared-entry".into(), format!("{} distinct argument tuples, the body ran {} times: some tuples were served another tuple's entry", c1.evals, e1)));
        }
        if let Some((w, g)) = c1.mismatches.first().or(c2.mismatches.first()) {
            problems.push(("wrong-tuple-served".into(), format!("call with {w} returned the value computed for {g}")));
        }
        if let Some(n) = listed {
            if n as u64 != c1.evals {
                problems.push(("key-count".into(), format!("{} distinct tuples but {} distinct keys stored", c1.evals, n)));
            }
        }
        let c03 = args.get("property") == Some("C03");
        if c03 {
            // once per distinct argument tuple: not fewer (a tuple served another tuple's entry), not more (second pass)
            problems.retain(|(m, _)| m == "shared-entry");
            if e2 != 0 {
                problems.push(("recomputed".into(), format!("{} argument tuples were all stored in a first pass; calling them again ran the body {} times", c1.evals, e2)));
            }
        }
        let c14 = args.get("property") == Some("C14");
        if c14 {
            problems.clear();
            if e2 != 0 {
                problems.push(("global-entry-not-shared-across-threads".into(), format!("{} argument tuples were stored by one thread; a second thread calling with the same tuples ran the body {} times", c1.evals, e2)));
            }
            if let Some((w, g)) = c2.mismatches.first() {
                problems.push(("wrong-value-on-second-thread".into(), format!("call with {w} on the second thread returned the value computed for {g}")));
            }
        }
        emit(
            "SHAPE",
            J::obj()
                .set("name", sh.name)
                .set("signature", sh.signature)
                .set("generator", if sh.is_async { "async format!(\"{:?}\")" } else { "sync to_cache_key" })
                .set("method", sh.is_method)
                .set("tuples", c1.evals)
                .set("executions_first_pass", e1)
                .set("executions_second_pass", e2)
                .set("keys_listed", listed)
                .set("nontrivial", c1.nontrivial())
                .set("samples", J::Arr(vec![J::from(c1.first.clone()), J::from(c1.last.clone())]))
                .set("wall_s", t0.elapsed().as_secs_f64()),
        );
        let c01 = args.get("property") == Some("C01");
        for (mon, detail) in problems {
            if c01 && mon != "wrong-tuple-served" {
                continue;
            }
            let pname: &'static str = if c14 { "C14" } else if c03 { "C03" } else if c01 { "C01" } else { "C02" };
            let v = Violation {
                property: pname,
                signature: format!("{}/{}/{}/{}", pname, if sh.is_async { "async" } else { "sync" }, if sh.is_method { "method" } else { "fn" }, mon),
                detail: format!("{detail} | shape {} {}", sh.name, sh.signature),
                replay: J::obj().set("engine", "shapex").set("shape", sh.name).set("tier", if thorough { "thorough" } else { "quick" }),
            };
            emit("VIOLATION", v.to_json());
            if only.is_some() {
                println!("FINDING {}: {}", v.signature, v.detail);
            }
        }
    }
    emit("DONE", J::obj().set("shapes_total", shapes_gen::SHAPES.len()));
    0
}

fn macx_main(args: &Args) -> i32 {
    if let Some(path) = args.get("replay") {
        return macx_replay(path, args.get("property").unwrap_or(""));
    }
    let property = args.get("property").expect("--property").to_string();
    let thorough = args.get("tier") == Some("thorough");
    let shard = args.shard();
    let suites = macx::suites_for(&property, thorough);
    for (i, s) in suites.iter().enumerate() {
        if i % shard.1 != shard.0 {
            continue;
        }
        let t0 = std::time::Instant::now();
        let r = macx::explore_suite(s, &property);
        emit(
            "SUITE",
            J::obj()
                .set("label", s.f.label())
                .set("second", s.f2.map(|f| f.label()))
                .set("alphabet", J::Arr(s.alphabet.iter().map(|o| J::Str(o.render())).collect()))
                .set("depth", s.depth)
                .set("histories", r.histories)
                .set("runs", r.runs)
                .set("steps", r.steps)
                .set("choice_points", r.choice_points)
                .set("distinct_observations", r.distinct_obs)
                .set("sample", r.sample.clone())
                .set("wall_s", t0.elapsed().as_secs_f64()),
        );
        for v in &r.violations {
            emit("VIOLATION", v.to_json());
        }
    }
    emit("DONE", J::obj().set("suites_total", suites.len()));
    0
}

fn macx_replay(path: &str, property: &str) -> i32 {
    let src = std::fs::read_to_string(path).expect("read replay file");
    let j = json::parse(&src).expect("parse replay file");
    let j = j.get("replay").cloned().unwrap_or(j);
    let fid = j.get("function").and_then(|x| x.as_i64()).expect("function") as u32;
    let f = thrx::func(fid);
    let f2 = j.get("function2").and_then(|x| x.as_i64()).map(|x| thrx::func(x as u32));
    let ops: Vec<macx::MOp> = j.get("ops").and_then(|x| x.as_arr()).unwrap().iter().filter_map(|o| macx::MOp::parse(o.as_str()?)).collect();
    let choices: Vec<usize> = j.get("choices").and_then(|x| x.as_arr()).unwrap().iter().map(|x| x.as_i64().unwrap() as usize).collect();
    let group: Vec<&'static l1::FnInfo> = j.get("group").and_then(|x| x.as_arr()).map(|a| a.iter().filter_map(|x| x.as_i64()).map(|x| thrx::func(x as u32)).collect()).unwrap_or_default();
    let wash = matches!(j.get("wash"), Some(J::Bool(true)));
    let suite = macx::Suite { f, f2, group, wash, prune_noops: false, alphabet: ops.clone(), depth: ops.len() };
    let mut runs = Vec::new();
    for _ in 0..2 {
        let (lines, bad) = macx::replay_once(&suite, &ops, &choices, property);
        runs.push((lines, bad));
    }
    for l in &runs[0].0 {
        println!("{l}");
    }
    if runs[0] != runs[1] {
        println!("MACHINERY-FAILURE: replay is not deterministic");
        return 3;
    }
    println!("replayed twice with identical observations; violation reproduced: {}", runs[0].1);
    if runs[0].1 {
        1
    } else {
        0
    }
}

fn thrx_main(args: &Args) -> i32 {
    if let Some(path) = args.get("replay") {
        return thrx_replay(path, args.get("property").unwrap_or(""));
    }
    let property = args.get("property").expect("--property").to_string();
    let thorough = args.get("tier") == Some("thorough");
    let drivers = thrx::drivers_for(&property, thorough);
    if args.get("count").is_some() {
        println!("{}", drivers.len());
        return 0;
    }
    if args.get("list").is_some() {
        for (i, d) in drivers.iter().enumerate() {
            println!("{i} {}", d.label);
        }
        return 0;
    }
    // one driver per process, except batches of thread-scope-only drivers (label "T:...", nothing is registered)
    let (lo, hi) = match args.get("drivers") {
        Some(r) => {
            let mut it = r.split(':');
            let a: usize = it.next().and_then(|x| x.parse().ok()).unwrap_or(0);
            let b: usize = it.next().and_then(|x| x.parse().ok()).unwrap_or(a + 1);
            (a, b)
        }
        None => {
            let i = args.usize("driver", usize::MAX);
            (i, i.saturating_add(1))
        }
    };
    if lo >= drivers.len() {
        eprintln!("no driver {lo}");
        return 2;
    }
    let default_bound = if thorough { 3 } else { 2 };
    if args.get("cold-exec").is_some() {
        // child of a cold-start driver: exactly one execution in this fresh process
        let d = &drivers[lo];
        let pol = if args.get("rw-policy") == Some("writer-preference") { vsched::RwPolicy::WriterPreference } else { vsched::RwPolicy::ReadersBarge };
        let prefix: Vec<usize> = args.get("prefix").filter(|p| *p != "-").map(|p| p.split(',').filter_map(|x| x.parse().ok()).collect()).unwrap_or_default();
        emit("EXEC", cold::cold_exec(d, pol, &prefix));
        return 0;
    }
    let max_execs = args.usize("max-execs", if thorough { 3_000_000 } else { 300_000 }) as u64;
    for d in &drivers[lo..hi.min(drivers.len())] {
    if hi - lo > 1 && !d.label.starts_with("T:") {
        eprintln!("driver {} cannot be batched", d.label);
        return 2;
    }
    let t0 = std::time::Instant::now();
    let max_bound = args.usize("bound", default_bound);
    let r = if cold::is_cold(d) {
        // registration races: one child process per execution, bound 2 (quick) / 3 (thorough)
        let idx = drivers.iter().position(|x| x.label == d.label).unwrap();
        cold::explore_cold(d, idx, &property, thorough, max_bound, max_execs.min(if thorough { 60_000 } else { 6_000 }))
    } else {
        // thread-scope drivers have only a handful of points (operation boundaries): no effective preemption bound
        thrx::explore_driver(d, &property, max_bound, if d.label.starts_with("T:") { 12 } else { 0 }, max_execs)
    };
    emit(
        "DRIVER",
        J::obj()
            .set("label", d.label.clone())
            .set("threads", d.threads.len())
            .set("schedules", r.schedules)
            .set("by_bound", J::Arr(r.by_bound.iter().map(|(b, p, n)| J::obj().set("bound", *b).set("rw_policy", p.clone()).set("schedules", *n)).collect()))
            .set("preemption_bound_completed", if r.exec_cap_hit { J::Null } else { J::Int(r.bound_used as i64) })
            .set("exec_cap_hit", r.exec_cap_hit)
            .set("max_points", r.max_points)
            .set("points_total", r.points_total)
            .set("deadlocks", r.deadlocks)
            .set("distinct_observations", r.distinct_observations)
            .set("sample", r.sample.clone())
            .set("sequential_equivalence", {
                let mut st = thrx::SEQ_EQ_STATS.lock().unwrap();
                let v = J::obj().set("final_states_judged", st.0).set("continuations_run", st.1).set("sequential_orders_tried", st.2);
                *st = (0, 0, 0);
                v
            })
            .set("wall_s", t0.elapsed().as_secs_f64()),
    );
    for v in &r.violations {
        emit("VIOLATION", v.to_json());
    }
    }
    emit("DONE", J::obj());
    0
}

fn thrx_replay(path: &str, property: &str) -> i32 {
    let src = std::fs::read_to_string(path).expect("read replay file");
    let j = json::parse(&src).expect("parse replay file");
    let j = j.get("replay").cloned().unwrap_or(j);
    if matches!(j.get("cold"), Some(J::Bool(true))) {
        // every execution of a cold-start driver needs a fresh process: run the child twice
        let exe = std::env::current_exe().expect("current exe");
        let sched: Vec<String> = j.get("schedule").and_then(|x| x.as_arr()).unwrap().iter().map(|x| x.as_i64().unwrap().to_string()).collect();
        let mut outs = Vec::new();
        for _ in 0..2 {
            let o = std::process::Command::new(&exe)
                .args(["thrx", "--property", j.get("property").and_then(|x| x.as_str()).unwrap_or(property), "--tier", j.get("tier").and_then(|x| x.as_str()).unwrap_or("quick"), "--driver", &j.get("driver_index").and_then(|x| x.as_i64()).unwrap_or(0).to_string(), "--cold-exec", "1", "--rw-policy", j.get("rw_policy").and_then(|x| x.as_str()).unwrap_or("readers-barge"), "--prefix", &if sched.is_empty() { "-".to_string() } else { sched.join(",") }])
                .output()
                .expect("spawn cold child");
            outs.push(String::from_utf8_lossy(&o.stdout).lines().find(|l| l.starts_with("@@EXEC ")).map(|l| l[7..].to_string()).unwrap_or_default());
        }
        let r = json::parse(&outs[0]).unwrap_or(J::Null);
        if let Some(a) = r.get("schedule_rendered").and_then(|x| x.as_arr()) {
            for l in a {
                println!("{}", l.as_str().unwrap_or(""));
            }
        }
        println!("observed: {}", r.get("observation").and_then(|x| x.as_str()).unwrap_or(""));
        let mut bad = false;
        if let Some(fl) = r.get("findings").and_then(|x| x.as_arr()) {
            for f in fl {
                let p = f.get("property").and_then(|x| x.as_str()).unwrap_or("");
                println!("    FINDING {}/{}: {}", p, f.get("monitor").and_then(|x| x.as_str()).unwrap_or(""), f.get("detail").and_then(|x| x.as_str()).unwrap_or(""));
                if property.is_empty() || p == property {
                    bad = true;
                }
            }
        }
        if outs[0] != outs[1] || outs[0].is_empty() {
            println!("MACHINERY-FAILURE: replay is not deterministic");
            return 3;
        }
        println!("replayed twice (fresh process each) with identical observations; violation reproduced: {bad}");
        return if bad { 1 } else { 0 };
    }
    let d = thrx::Driver::from_json(j.get("driver").expect("driver")).expect("driver spec");
    let pol = match j.get("rw_policy").and_then(|x| x.as_str()) {
        Some("writer-preference") => vsched::RwPolicy::WriterPreference,
        _ => vsched::RwPolicy::ReadersBarge,
    };
    let schedule: Vec<usize> = j.get("schedule").and_then(|x| x.as_arr()).unwrap().iter().map(|x| x.as_i64().unwrap() as usize).collect();
    let prep = thrx::Prepared::new(&d);
    prep.compute_isolated_patterns();
    let mut runs = Vec::new();
    for _ in 0..2 {
        let out = vsched::run(&schedule, &[], prep.make_threads(), pol, 20_000);
        if let Some(dv) = &out.diverged {
            println!("MACHINERY-FAILURE: {dv}");
            return 3;
        }
        let q = thrx::check_execution(&prep, &out);
        runs.push((out.render_schedule(), q.observation.clone(), q.findings.iter().map(|f| format!("{}/{}: {}", f.property, f.monitor, f.detail)).collect::<Vec<_>>(), q.findings.iter().any(|f| property.is_empty() || f.property == property)));
    }
    for l in &runs[0].0 {
        println!("{l}");
    }
    println!("observed: {}", runs[0].1);
    for f in &runs[0].2 {
        println!("    FINDING {f}");
    }
    if runs[0] != runs[1] {
        println!("MACHINERY-FAILURE: replay is not deterministic");
        return 3;
    }
    println!("replayed twice with identical observations; violation reproduced: {}", runs[0].3);
    if runs[0].3 {
        1
    } else {
        0
    }
}

fn main() {
    vsched::install_quiet_panic_hook();
    cachelito_core::verif_hooks::install(vsched::clock_now, vsched::atomic_point);
    let argv: Vec<String> = std::env::args().skip(1).collect();
    if let Some(i) = argv.iter().position(|a| a == "--hash-seed") {
        // order in which the registries iterate their name sets (hook H3); fixed per process
        cachelito_core::verif_hooks::set_hash_seed(argv.get(i + 1).and_then(|x| x.parse().ok()).unwrap_or(0));
    }
    if argv.is_empty() {
        eprintln!("usage: engine <seqx|macx|thrx|pollx> --property <ID> --tier <quick|thorough> [--shard i/n] | --replay <file>");
        std::process::exit(2);
    }
    let args = Args::parse(&argv[1..]);
    let code = match argv[0].as_str() {
        "seqx" => {
            vsched::sequential_mode(true);
            seqx_main(&args)
        }
        "thrx" => thrx_main(&args),
        "shards" => {
            // which DashMap shard the driver keys live in (deterministic hasher of the vendored copy)
            let m: dashmap::DashMap<String, u8> = dashmap::DashMap::new();
            let mut out = Vec::new();
            for k in ["0", "1", "2", "3", "9", "20", "21", "22", "23", "30", "k0", "k1", "k2"] {
                out.push(format!("{k}->{}", m.determine_shard(m.hash_usize(&k.to_string()))));
            }
            println!("shards={} {}", m.shards().len(), out.join(" "));
            0
        }
        "cfgx" => {
            vsched::sequential_mode(true);
            cfgx_main(&args)
        }
        "shapex" => {
            vsched::sequential_mode(true);
            shapex_main(&args)
        }
        "macx" => {
            vsched::sequential_mode(true);
            macx_main(&args)
        }
        other => {
            eprintln!("unknown engine {other}");
            2
        }
    };
    std::process::exit(code);
}
