//! Shared vocabulary of the engines: configurations, violations, result records.
use crate::json::J;
use cachelito_core::EvictionPolicy;

#[derive(Clone, Copy, Debug, PartialEq, Eq, Hash, PartialOrd, Ord)]
pub enum Flavour {
    Global,
    Thread,
    Async,
}

impl Flavour {
    pub fn name(self) -> &'static str {
        match self {
            Flavour::Global => "global",
            Flavour::Thread => "thread",
            Flavour::Async => "async",
        }
    }
    pub fn parse(s: &str) -> Option<Flavour> {
        Some(match s {
            "global" => Flavour::Global,
            "thread" => Flavour::Thread,
            "async" => Flavour::Async,
            _ => return None,
        })
    }
    pub const ALL: [Flavour; 3] = [Flavour::Global, Flavour::Thread, Flavour::Async];
}

#[derive(Clone, Copy, Debug, PartialEq, Eq, Hash, PartialOrd, Ord)]
pub enum Pol {
    Fifo,
    Lru,
    Lfu,
    Arc,
    Random,
    Tlru,
}

impl Pol {
    pub const ALL: [Pol; 6] = [Pol::Fifo, Pol::Lru, Pol::Lfu, Pol::Arc, Pol::Random, Pol::Tlru];
    pub fn name(self) -> &'static str {
        match self {
            Pol::Fifo => "fifo",
            Pol::Lru => "lru",
            Pol::Lfu => "lfu",
            Pol::Arc => "arc",
            Pol::Random => "random",
            Pol::Tlru => "tlru",
        }
    }
    pub fn parse(s: &str) -> Option<Pol> {
        Pol::ALL.iter().copied().find(|p| p.name() == s)
    }
    pub fn core(self) -> EvictionPolicy {
        match self {
            Pol::Fifo => EvictionPolicy::FIFO,
            Pol::Lru => EvictionPolicy::LRU,
            Pol::Lfu => EvictionPolicy::LFU,
            Pol::Arc => EvictionPolicy::ARC,
            Pol::Random => EvictionPolicy::Random,
            Pol::Tlru => EvictionPolicy::TLRU,
        }
    }
    /// policies whose hit bookkeeping makes the state space unbounded
    pub fn counts_hits(self) -> bool {
        matches!(self, Pol::Lfu | Pol::Arc | Pol::Tlru)
    }
}

#[derive(Clone, Debug, PartialEq)]
pub struct Config {
    pub flavour: Flavour,
    pub policy: Pol,
    pub limit: Option<usize>,
    pub ttl: Option<u64>,
    pub max_memory: Option<usize>,
    pub fw: Option<f64>,
    pub vtype: &'static str,
}

impl Config {
    pub fn to_json(&self) -> J {
        J::obj()
            .set("flavour", self.flavour.name())
            .set("policy", self.policy.name())
            .set("limit", self.limit)
            .set("ttl", self.ttl)
            .set("max_memory", self.max_memory)
            .set("frequency_weight", self.fw)
            .set("value_type", self.vtype)
    }
    pub fn label(&self) -> String {
        format!(
            "{}/{}/limit={}/ttl={}/mem={}/fw={}/{}",
            self.flavour.name(),
            self.policy.name(),
            self.limit.map_or("-".into(), |x| x.to_string()),
            self.ttl.map_or("-".into(), |x| x.to_string()),
            self.max_memory.map_or("-".into(), |x| x.to_string()),
            self.fw.map_or("-".into(), |x| x.to_string()),
            self.vtype
        )
    }
}

#[derive(Clone, Debug)]
pub struct Violation {
    pub property: &'static str,
    /// stable identification of *what* failed: `<property>/<flavour>/<policy>/<monitor>` (+ site)
    pub signature: String,
    pub detail: String,
    pub replay: J,
}

impl Violation {
    pub fn to_json(&self) -> J {
        J::obj()
            .set("property", self.property)
            .set("signature", self.signature.clone())
            .set("detail", self.detail.clone())
            .set("replay", self.replay.clone())
    }
}

pub fn emit(kind: &str, j: J) {
    println!("@@{kind} {}", j.render());
}

/// FNV-1a, used next to std's SipHash to form 128-bit state keys.
pub fn fnv64(bytes: &[u8]) -> u64 {
    let mut h: u64 = 0xcbf29ce484222325;
    for b in bytes {
        h ^= *b as u64;
        h = h.wrapping_mul(0x100000001b3);
    }
    h
}

pub fn key128(s: &str) -> (u64, u64) {
    use std::hash::{Hash, Hasher};
    #[allow(deprecated)]
    let mut h = std::collections::hash_map::DefaultHasher::new();
    s.hash(&mut h);
    (h.finish(), fnv64(s.as_bytes()))
}

pub struct Args {
    pub items: Vec<(String, String)>,
}

impl Args {
    pub fn parse(argv: &[String]) -> Args {
        let mut items = Vec::new();
        let mut i = 0;
        while i < argv.len() {
            if let Some(k) = argv[i].strip_prefix("--") {
                let v = if i + 1 < argv.len() && !argv[i + 1].starts_with("--") {
                    i += 1;
                    argv[i].clone()
                } else {
                    "true".to_string()
                };
                items.push((k.to_string(), v));
            }
            i += 1;
        }
        Args { items }
    }
    pub fn get(&self, k: &str) -> Option<&str> {
        self.items.iter().find(|(a, _)| a == k).map(|(_, v)| v.as_str())
    }
    pub fn usize(&self, k: &str, d: usize) -> usize {
        self.get(k).and_then(|v| v.parse().ok()).unwrap_or(d)
    }
    pub fn shard(&self) -> (usize, usize) {
        match self.get("shard") {
            Some(s) => {
                let mut it = s.split('/');
                let i = it.next().and_then(|x| x.parse().ok()).unwrap_or(0);
                let n = it.next().and_then(|x| x.parse().ok()).unwrap_or(1);
                (i, n)
            }
            None => (0, 1),
        }
    }
}
