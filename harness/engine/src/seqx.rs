//! E1 `seqx` — explicit-state search over the real core engines (DESIGN §5.1).
//!
//! A state is the real contents of the real cache (store, queue, hit counters, ages, stats)
//! plus the harness's ghost bookkeeping; a transition calls the real `get` / `insert` /
//! `insert_with_memory`, or advances the virtual clock. Breadth-first, deduplicated on a
//! canonical state key, every `fastrand` draw enumerated. Monitors for C01, C04–C08, C15, C16
//! run on every transition.
use crate::common::*;
use crate::json::J;
use crate::vals::{Storage, Val};
use cachelito_core::{AsyncGlobalCache, CacheEntry, GlobalCache, ThreadLocalCache};
use std::collections::{BTreeMap, BTreeSet, HashMap, HashSet, VecDeque};
use std::panic::{catch_unwind, AssertUnwindSafe};

pub const NS: u64 = 1_000_000_000;
const START_NS: u64 = 1000 * NS;

#[derive(Clone, Copy, Debug, PartialEq, Eq, Hash)]
pub enum Op {
    Get(u8),
    Put(u8, u8),
    Tick,
}

impl Op {
    pub fn render(&self) -> String {
        match self {
            Op::Get(k) => format!("get k{k}"),
            Op::Put(k, v) => format!("put k{k} v{v}"),
            Op::Tick => "tick".into(),
        }
    }
    pub fn parse(s: &str) -> Option<Op> {
        let p: Vec<&str> = s.split_whitespace().collect();
        match p.as_slice() {
            ["get", k] => Some(Op::Get(k[1..].parse().ok()?)),
            ["put", k, v] => Some(Op::Put(k[1..].parse().ok()?, v[1..].parse().ok()?)),
            ["tick"] => Some(Op::Tick),
            _ => None,
        }
    }
}

fn key_name(k: u8) -> String {
    format!("k{k}")
}

#[derive(Clone, Debug)]
pub struct Spec {
    pub cfg: Config,
    pub nkeys: u8,
    /// (variant id, heap payload bytes)
    pub variants: Vec<(u8, usize)>,
    pub depth: usize,
    pub tick_ns: Option<u64>,
    pub include_stats: bool,
}

impl Spec {
    pub fn alphabet(&self) -> Vec<Op> {
        let mut a = Vec::new();
        for k in 0..self.nkeys {
            a.push(Op::Get(k));
        }
        for (v, _) in &self.variants {
            for k in 0..self.nkeys {
                a.push(Op::Put(k, *v));
            }
        }
        if self.tick_ns.is_some() {
            a.push(Op::Tick);
        }
        a
    }
    pub fn payload(&self, variant: u8) -> usize {
        self.variants.iter().find(|(v, _)| *v == variant).map(|x| x.1).unwrap_or(8)
    }
    pub fn to_json(&self) -> J {
        self.cfg
            .to_json()
            .set("keys", self.nkeys as usize)
            .set(
                "variants",
                self.variants.iter().map(|(v, p)| J::Arr(vec![J::Int(*v as i64), J::Int(*p as i64)])).collect::<Vec<_>>(),
            )
            .set("depth", self.depth)
            .set("tick_ns", self.tick_ns)
            .set("stats_in_state", self.include_stats)
    }
}

// ---------------------------------------------------------------------------------------------
// subjects: the three real engines behind one face
// ---------------------------------------------------------------------------------------------

#[derive(Clone, Debug, PartialEq)]
pub struct Ent {
    pub ident: (u8, u8),
    pub hits: u64,
    /// sync: exact age in ns; async: whole seconds (as the engine's clock sees it) * NS
    pub age_ns: u64,
    pub footprint: usize,
}

#[derive(Clone, Debug, PartialEq, Default)]
pub struct Snap {
    pub store: BTreeMap<String, Ent>,
    pub order: Vec<String>,
    pub hits: u64,
    pub misses: u64,
}

/// A physical copy of a subject's (harness-owned) storage: continuations can be run from one state many times.
pub enum Saved<V: Val> {
    Sync(HashMap<String, CacheEntry<V>>, VecDeque<String>),
    Async(Vec<(String, (V, u64, u64))>, VecDeque<String>),
}

pub trait Subject<V: Val> {
    fn get(&self, k: &str) -> Option<V>;
    fn put(&self, k: &str, v: V);
    fn snap(&self) -> Snap;
    fn reset(&self);
    /// `GlobalCache::clear` (the only engine with a public clear)
    fn clear(&self) {}
    fn save(&self) -> Saved<V>;
    fn restore(&self, s: &Saved<V>);
    /// remove these keys from store and queue, as if they had been invalidated
    fn forget(&self, keys: &[String]);
}

struct GlobalSubj<V: Val> {
    c: GlobalCache<V>,
    st: &'static Storage<V>,
    mem: bool,
}
impl<V: Val> Subject<V> for GlobalSubj<V> {
    fn get(&self, k: &str) -> Option<V> {
        self.c.get(k)
    }
    fn put(&self, k: &str, v: V) {
        if self.mem {
            self.c.insert_with_memory(k, v)
        } else {
            self.c.insert(k, v)
        }
    }
    fn snap(&self) -> Snap {
        let m = self.st.g_map.read();
        let store = m
            .iter()
            .map(|(k, e)| {
                (
                    k.clone(),
                    Ent {
                        ident: e.value.ident(),
                        hits: e.frequency,
                        age_ns: e.inserted_at.elapsed().as_nanos() as u64,
                        footprint: e.value.footprint(),
                    },
                )
            })
            .collect();
        drop(m);
        let order = self.st.g_order.lock().iter().cloned().collect();
        Snap { store, order, hits: self.st.g_stats.hits(), misses: self.st.g_stats.misses() }
    }
    fn reset(&self) {
        self.st.g_map.write().clear();
        self.st.g_order.lock().clear();
        self.st.g_stats.reset();
    }
    fn clear(&self) {
        self.c.clear()
    }
    fn save(&self) -> Saved<V> {
        Saved::Sync(self.st.g_map.read().clone(), self.st.g_order.lock().clone())
    }
    fn restore(&self, s: &Saved<V>) {
        if let Saved::Sync(m, o) = s {
            *self.st.g_map.write() = m.clone();
            *self.st.g_order.lock() = o.clone();
        }
    }
    fn forget(&self, keys: &[String]) {
        let mut m = self.st.g_map.write();
        for k in keys {
            m.remove(k);
        }
        drop(m);
        self.st.g_order.lock().retain(|k| !keys.contains(k));
    }
}

struct ThreadSubj<V: Val> {
    c: ThreadLocalCache<V>,
    st: &'static Storage<V>,
    mem: bool,
}
impl<V: Val> Subject<V> for ThreadSubj<V> {
    fn get(&self, k: &str) -> Option<V> {
        self.c.get(k)
    }
    fn put(&self, k: &str, v: V) {
        if self.mem {
            self.c.insert_with_memory(k, v)
        } else {
            self.c.insert(k, v)
        }
    }
    fn snap(&self) -> Snap {
        let store = self.st.tl_map.with(|m| {
            m.borrow()
                .iter()
                .map(|(k, e)| {
                    (
                        k.clone(),
                        Ent {
                            ident: e.value.ident(),
                            hits: e.frequency,
                            age_ns: e.inserted_at.elapsed().as_nanos() as u64,
                            footprint: e.value.footprint(),
                        },
                    )
                })
                .collect()
        });
        let order = self.st.tl_order.with(|o| o.borrow().iter().cloned().collect());
        Snap { store, order, hits: self.c.stats().hits(), misses: self.c.stats().misses() }
    }
    fn reset(&self) {
        // a panic inside the cache may have left a RefCell borrowed only while unwinding; by now it is released
        self.st.tl_map.with(|m| m.borrow_mut().clear());
        self.st.tl_order.with(|o| o.borrow_mut().clear());
        self.c.stats().reset();
    }
    fn save(&self) -> Saved<V> {
        Saved::Sync(self.st.tl_map.with(|m| m.borrow().clone()), self.st.tl_order.with(|o| o.borrow().clone()))
    }
    fn restore(&self, s: &Saved<V>) {
        if let Saved::Sync(m, o) = s {
            self.st.tl_map.with(|x| *x.borrow_mut() = m.clone());
            self.st.tl_order.with(|x| *x.borrow_mut() = o.clone());
        }
    }
    fn forget(&self, keys: &[String]) {
        self.st.tl_map.with(|m| {
            let mut m = m.borrow_mut();
            for k in keys {
                m.remove(k);
            }
        });
        self.st.tl_order.with(|o| o.borrow_mut().retain(|k| !keys.contains(k)));
    }
}

struct AsyncSubj<V: Val> {
    c: AsyncGlobalCache<'static, V>,
    st: &'static Storage<V>,
    mem: bool,
}
impl<V: Val> Subject<V> for AsyncSubj<V> {
    fn get(&self, k: &str) -> Option<V> {
        self.c.get(k)
    }
    fn put(&self, k: &str, v: V) {
        if self.mem {
            self.c.insert_with_memory(k, v)
        } else {
            self.c.insert(k, v)
        }
    }
    fn snap(&self) -> Snap {
        let now_s = cachelito_core::verif_hooks::unix_secs(0);
        let store = self
            .st
            .a_map
            .iter()
            .map(|e| {
                let (v, ts, hits) = e.value();
                (
                    e.key().clone(),
                    Ent { ident: v.ident(), hits: *hits, age_ns: now_s.saturating_sub(*ts) * NS, footprint: v.footprint() },
                )
            })
            .collect();
        let order = self.st.a_order.lock().iter().cloned().collect();
        Snap { store, order, hits: self.st.a_stats.hits(), misses: self.st.a_stats.misses() }
    }
    fn reset(&self) {
        self.st.a_map.clear();
        self.st.a_order.lock().clear();
        self.st.a_stats.reset();
    }
    fn save(&self) -> Saved<V> {
        Saved::Async(self.st.a_map.iter().map(|e| (e.key().clone(), e.value().clone())).collect(), self.st.a_order.lock().clone())
    }
    fn restore(&self, s: &Saved<V>) {
        if let Saved::Async(m, o) = s {
            self.st.a_map.clear();
            for (k, v) in m {
                self.st.a_map.insert(k.clone(), v.clone());
            }
            *self.st.a_order.lock() = o.clone();
        }
    }
    fn forget(&self, keys: &[String]) {
        for k in keys {
            self.st.a_map.remove(k);
        }
        self.st.a_order.lock().retain(|k| !keys.contains(k));
    }
}

pub fn make_subject<V: Val>(cfg: &Config) -> Box<dyn Subject<V>> {
    let st = V::storage();
    let mem = cfg.max_memory.is_some();
    match cfg.flavour {
        Flavour::Global => Box::new(GlobalSubj {
            c: GlobalCache::new(st.g_map, st.g_order, cfg.limit, cfg.max_memory, cfg.policy.core(), cfg.ttl, cfg.fw, st.g_stats),
            st,
            mem,
        }),
        Flavour::Thread => Box::new(ThreadSubj {
            c: ThreadLocalCache::new(st.tl_map, st.tl_order, cfg.limit, cfg.max_memory, cfg.policy.core(), cfg.ttl, cfg.fw),
            st,
            mem,
        }),
        Flavour::Async => Box::new(AsyncSubj {
            c: AsyncGlobalCache::new(&**st.a_map, &**st.a_order, cfg.limit, cfg.max_memory, cfg.policy.core(), cfg.ttl, cfg.fw, &**st.a_stats),
            st,
            mem,
        }),
    }
}

// ---------------------------------------------------------------------------------------------
// ghost state and monitors
// ---------------------------------------------------------------------------------------------

#[derive(Clone, Debug, PartialEq)]
pub struct Ghost {
    pub variant: u8,
    pub stored_seq: u64,
    pub last_use: u64,
    pub hits: u64,
    pub born_ns: u64,
    pub footprint: usize,
}

#[derive(Clone, Debug)]
pub struct Finding {
    pub property: &'static str,
    pub monitor: &'static str,
    pub detail: String,
}

#[derive(Clone, Debug, Default)]
pub struct StepObs {
    pub findings: Vec<Finding>,
    pub panicked: bool,
    pub result: String,
    pub removed: Vec<u8>,
    pub kind: String,
}

pub struct Runner<V: Val> {
    pub spec: Spec,
    pub subj: Box<dyn Subject<V>>,
    pub ghost: BTreeMap<u8, Ghost>,
    pub seq: u64,
    pub now_ns: u64,
    pub lookups: u64,
    pub hit_count: u64,
    /// keys purged by an expiry and not stored again since (attribution of C06 capacity findings)
    pub purged: BTreeSet<u8>,
}

fn approx_le(a: f64, b: f64) -> bool {
    a <= b + 1e-9 * (a.abs().max(b.abs()).max(1e-300))
}

impl<V: Val> Runner<V> {
    pub fn new(spec: &Spec) -> Self {
        let subj = make_subject::<V>(&spec.cfg);
        subj.reset();
        vsched::clock_freeze(START_NS);
        Runner {
            spec: spec.clone(),
            subj,
            ghost: BTreeMap::new(),
            seq: 0,
            now_ns: START_NS,
            lookups: 0,
            hit_count: 0,
            purged: BTreeSet::new(),
        }
    }

    fn is_async(&self) -> bool {
        self.spec.cfg.flavour == Flavour::Async
    }

    /// age factor alternatives the property admits for TLRU (DESIGN §7 C08)
    fn age_factors(&self, g: &Ghost) -> Vec<f64> {
        match self.spec.cfg.ttl {
            None => vec![1.0],
            Some(t) => {
                let real = (self.now_ns - g.born_ns) as f64 / NS as f64;
                let f = |age: f64| (1.0 - (age / t as f64).min(1.0)).max(0.0);
                if self.is_async() {
                    let whole = (self.now_ns / NS - g.born_ns / NS) as f64;
                    vec![f(real), f(whole)]
                } else {
                    vec![f(real)]
                }
            }
        }
    }

    /// score minimisers among `set` (keys), under every admitted reading of the age
    fn minimisers(&self, set: &[u8], g: &BTreeMap<u8, Ghost>) -> BTreeSet<u8> {
        let mut out = BTreeSet::new();
        if set.is_empty() {
            return out;
        }
        let mut by_use: Vec<u8> = set.to_vec();
        by_use.sort_by_key(|k| g[k].last_use);
        let rank = |k: u8| (by_use.iter().position(|x| *x == k).unwrap() + 1) as f64;
        let readings = if self.spec.cfg.policy == Pol::Tlru && self.spec.cfg.ttl.is_some() && self.is_async() { 2 } else { 1 };
        for r in 0..readings {
            let score = |k: u8| -> f64 {
                let e = &g[&k];
                let h = e.hits as f64;
                match self.spec.cfg.policy {
                    Pol::Lfu => h,
                    Pol::Arc => h * rank(k),
                    Pol::Tlru => {
                        let w = self.spec.cfg.fw.unwrap_or(1.0);
                        let hc = if h > 0.0 { h.powf(w) } else { 0.0 };
                        let a = self.age_factors(e);
                        hc * rank(k) * a[r.min(a.len() - 1)]
                    }
                    _ => 0.0,
                }
            };
            let min = set.iter().map(|k| score(*k)).fold(f64::INFINITY, f64::min);
            for k in set {
                if approx_le(score(*k), min) {
                    out.insert(*k);
                }
            }
        }
        out
    }

    fn explain_c08(&self, remaining: &[u8], to_remove: &BTreeSet<u8>, newcomer: u8, g: &BTreeMap<u8, Ghost>) -> bool {
        if to_remove.is_empty() {
            return true;
        }
        let mut allowed = self.minimisers(remaining, g);
        if self.is_async() {
            // the async engine evicts before inserting: residents compete among themselves
            let residents: Vec<u8> = remaining.iter().copied().filter(|k| *k != newcomer).collect();
            allowed.extend(self.minimisers(&residents, g));
        }
        for r in to_remove {
            if allowed.contains(r) {
                let rem: Vec<u8> = remaining.iter().copied().filter(|k| k != r).collect();
                let mut tr = to_remove.clone();
                tr.remove(r);
                if self.explain_c08(&rem, &tr, newcomer, g) {
                    return true;
                }
            }
        }
        false
    }

    pub fn apply(&mut self, op: Op, check: bool) -> StepObs {
        let mut obs = StepObs::default();
        let cfg = self.spec.cfg.clone();
        let pre: BTreeSet<u8> = self.ghost.keys().copied().collect();
        match op {
            Op::Tick => {
                let d = self.spec.tick_ns.unwrap_or(NS);
                vsched::clock_advance(d);
                self.now_ns += d;
                obs.kind = "tick".into();
                return obs;
            }
            Op::Get(k) => {
                let name = key_name(k);
                let r = catch_unwind(AssertUnwindSafe(|| self.subj.get(&name)));
                let r = match r {
                    Ok(r) => r,
                    Err(p) => {
                        obs.panicked = true;
                        obs.findings.push(Finding { property: "C16", monitor: "panic", detail: format!("get panicked: {}", vsched::describe_panic(&*p)) });
                        obs.kind = "get/panic".into();
                        return obs;
                    }
                };
                self.seq += 1;
                self.lookups += 1;
                obs.result = match &r {
                    Some(v) => format!("Some(k{}v{})", v.ident().0, v.ident().1),
                    None => "None".into(),
                };
                let post = self.subj.snap();
                let post_keys: BTreeSet<u8> = post.store.keys().map(|s| s[1..].parse::<u8>().unwrap_or(255)).collect();
                let gk = self.ghost.get(&k).cloned();
                // --- C01: the value served is the one last stored for this key
                match (&r, &gk) {
                    (Some(v), Some(g)) => {
                        if v.ident() != (k, g.variant) {
                            obs.findings.push(Finding {
                                property: "C01",
                                monitor: "wrong-value",
                                detail: format!("get k{k} returned k{}v{}, last stored k{k}v{}", v.ident().0, v.ident().1, g.variant),
                            });
                        }
                    }
                    (Some(v), None) => obs.findings.push(Finding {
                        property: "C01",
                        monitor: "phantom-entry",
                        detail: format!("get k{k} returned k{}v{} although nothing is stored for it", v.ident().0, v.ident().1),
                    }),
                    _ => {}
                }
                // --- C06: expiry
                let mut expired_purge = false;
                if let Some(g) = &gk {
                    let age = self.now_ns - g.born_ns;
                    let (must_expire, must_serve) = match cfg.ttl {
                        None => (false, true),
                        Some(t) => {
                            if self.is_async() {
                                (age >= t * NS, age + NS < t * NS)
                            } else {
                                (age >= t * NS, age < t * NS)
                            }
                        }
                    };
                    let still = post_keys.contains(&k);
                    if must_expire {
                        if r.is_some() {
                            obs.findings.push(Finding { property: "C06", monitor: "expired-served", detail: format!("get k{k}: entry of age {:.1}s served with ttl {:?}", age as f64 / NS as f64, cfg.ttl) });
                        } else if still {
                            obs.findings.push(Finding { property: "C06", monitor: "expired-not-purged", detail: format!("get k{k}: expired entry (age {:.1}s) still in the store", age as f64 / NS as f64) });
                        }
                    } else if must_serve {
                        if r.is_none() || !still {
                            obs.findings.push(Finding { property: "C06", monitor: "unexpired-not-served", detail: format!("get k{k}: entry of age {:.1}s (ttl {:?}) not served or dropped (result {}, still stored {})", age as f64 / NS as f64, cfg.ttl, obs.result, still) });
                        }
                    } else {
                        // async whole-second slack: either answer, but consistently
                        if r.is_none() && still {
                            obs.findings.push(Finding { property: "C06", monitor: "expired-not-purged", detail: format!("get k{k}: miss in the slack window but entry left in the store") });
                        }
                        if r.is_some() && !still {
                            obs.findings.push(Finding { property: "C06", monitor: "unexpired-not-served", detail: format!("get k{k}: served but dropped") });
                        }
                    }
                    if r.is_none() && !still {
                        expired_purge = true;
                    }
                }
                // --- ghost update from the observation
                if r.is_some() {
                    self.hit_count += 1;
                    if let Some(g) = self.ghost.get_mut(&k) {
                        g.hits += 1;
                        g.last_use = self.seq;
                    }
                }
                // --- C04 exactness: a lookup removes nothing but the expired entry it touched
                for gone in pre.difference(&post_keys) {
                    obs.removed.push(*gone);
                    if *gone != k {
                        obs.findings.push(Finding { property: "C04", monitor: "lookup-removed-other", detail: format!("get k{k} removed k{gone}") });
                        // an entry younger than its ttl went without eviction or invalidation: that is the ttl clause too
                        if let (Some(t), Some(g)) = (cfg.ttl, self.ghost.get(gone)) {
                            let age = self.now_ns - g.born_ns;
                            let young = if self.is_async() { age + NS < t * NS } else { age < t * NS };
                            if young {
                                obs.findings.push(Finding { property: "C06", monitor: "purge-removed-unexpired-entry", detail: format!("get k{k} removed k{gone}, which is {:.1}s old (ttl {t})", age as f64 / NS as f64) });
                            }
                        }
                    }
                }
                for extra in post_keys.difference(&pre) {
                    obs.findings.push(Finding { property: "C01", monitor: "phantom-entry", detail: format!("get k{k} made k{extra} appear") });
                }
                if expired_purge {
                    self.purged.insert(k);
                }
                self.ghost.retain(|kk, _| post_keys.contains(kk));
                obs.kind = format!("get/{}{}", if r.is_some() { "hit" } else if gk.is_some() { "expired" } else { "miss" }, if obs.removed.is_empty() { "" } else { "/purge" });
                self.check_stats(&post, &mut obs);
                let _ = check;
                obs
            }
            Op::Put(k, variant) => {
                let name = key_name(k);
                let v = V::make(k, variant, self.spec.payload(variant));
                let fp = v.footprint();
                let r = catch_unwind(AssertUnwindSafe(|| self.subj.put(&name, v)));
                if let Err(p) = r {
                    obs.panicked = true;
                    obs.findings.push(Finding { property: "C16", monitor: "panic", detail: format!("put panicked: {}", vsched::describe_panic(&*p)) });
                    obs.kind = "put/panic".into();
                    return obs;
                }
                self.seq += 1;
                let post = self.subj.snap();
                let post_keys: BTreeSet<u8> = post.store.keys().map(|s| s[1..].parse::<u8>().unwrap_or(255)).collect();
                let old = self.ghost.get(&k).cloned();
                let mut cand = self.ghost.clone();
                cand.insert(k, Ghost { variant, stored_seq: self.seq, last_use: self.seq, hits: 0, born_ns: self.now_ns, footprint: fp });
                let cand_keys: Vec<u8> = cand.keys().copied().collect();
                let removed: BTreeSet<u8> = cand_keys.iter().copied().filter(|x| !post_keys.contains(x)).collect();
                obs.removed = removed.iter().copied().collect();
                for extra in post_keys.iter().filter(|x| !cand.contains_key(x)) {
                    obs.findings.push(Finding { property: "C01", monitor: "phantom-entry", detail: format!("put k{k} made k{extra} appear") });
                }
                let oversized = cfg.max_memory.map_or(false, |m| fp > m);
                let n = cand_keys.len();
                let tot = |ks: &mut dyn Iterator<Item = u8>| -> usize { ks.map(|x| cand[&x].footprint).sum() };
                // stored value must be the new one (C01 replaced-value clause, checked on the store itself)
                if let Some(e) = post.store.get(&name) {
                    if e.ident != (k, variant) {
                        // also when the new value is too large to be cached: the old one has been superseded and
                        // must not be served again (all three stores drop it)
                        let mon = if oversized { "superseded-value-kept-after-oversized-store" } else { "store-kept-old-value" };
                        obs.findings.push(Finding { property: "C01", monitor: mon, detail: format!("put k{k} v{variant}: the cache still holds k{}v{}", e.ident.0, e.ident.1) });
                    }
                }
                // --- C04
                if let Some(nlim) = cfg.limit {
                    if post_keys.len() > nlim {
                        obs.findings.push(Finding { property: "C04", monitor: "over-limit", detail: format!("put k{k}: {} entries with limit {nlim}", post_keys.len()) });
                    }
                }
                // entries that were already expired when this store ran (and are not the stored key): an
                // implementation may purge them at any time, that is neither a victim nor a needless eviction
                let is_async = self.is_async();
                let now_ns = self.now_ns;
                let stale = |x: &u8| -> bool {
                    *x != k
                        && cfg.ttl.map_or(false, |t| {
                            let born = cand[x].born_ns;
                            now_ns - born >= t * NS || (is_async && now_ns / NS - born / NS >= t)
                        })
                };
                let removed_stale: BTreeSet<u8> = removed.iter().copied().filter(|x| stale(x)).collect();
                if cfg.max_memory.is_none() {
                    let expect = match cfg.limit {
                        Some(nlim) if n > nlim => n - nlim,
                        _ => 0,
                    };
                    let removed_live = removed.len() - removed_stale.len();
                    let needless = removed_live > expect.saturating_sub(removed_stale.len());
                    let missing = removed.len() < expect;
                    if (needless || missing) && !(cfg.limit.is_some() && post_keys.len() > cfg.limit.unwrap()) {
                        let mon = if needless { "needless-eviction" } else { "missing-eviction" };
                        obs.findings.push(Finding { property: "C04", monitor: mon, detail: format!("put k{k}: {} entries before (+1 new), limit {:?}, removed {:?}", pre.len(), cfg.limit, removed) });
                        if needless && !self.purged.is_empty() {
                            obs.findings.push(Finding { property: "C06", monitor: "purged-entry-occupies-capacity", detail: format!("put k{k} evicted {:?} although only {} entries were stored: expired keys {:?} still count", removed, pre.len(), self.purged) });
                        }
                    }
                }
                // --- C05
                if let Some(m) = cfg.max_memory {
                    let total_after: usize = post.store.values().map(|e| e.footprint).sum();
                    if total_after > m {
                        obs.findings.push(Finding { property: "C05", monitor: "over-memory", detail: format!("put k{k}: {total_after} bytes cached with max_memory {m}") });
                    }
                    if oversized {
                        let others_before: BTreeSet<u8> = pre.iter().copied().filter(|x| *x != k).collect();
                        let others_after: BTreeSet<u8> = post_keys.iter().copied().filter(|x| *x != k).collect();
                        if others_before != others_after {
                            obs.findings.push(Finding { property: "C05", monitor: "oversized-displaced", detail: format!("put k{k} ({fp} bytes > {m}) changed the other entries {:?} -> {:?}", others_before, others_after) });
                        }
                        if let Some(e) = post.store.get(&name) {
                            if e.ident == (k, variant) {
                                obs.findings.push(Finding { property: "C05", monitor: "oversized-cached", detail: format!("put k{k}: value of {fp} bytes cached with max_memory {m}") });
                            }
                        }
                    } else if !removed.is_empty() {
                        // some split R = Rm (memory victims) + optional limit victim must explain the removals
                        let mut explained = false;
                        // (entries that were already expired may go at any time, see above)
                        let rem_vec: Vec<u8> = removed.iter().copied().filter(|x| !removed_stale.contains(x)).collect();
                        if rem_vec.is_empty() {
                            explained = true;
                        }
                        let mut options: Vec<Option<u8>> = vec![None];
                        options.extend(rem_vec.iter().map(|x| Some(*x)));
                        for lim_victim in options {
                            let rm: Vec<u8> = rem_vec.iter().copied().filter(|x| Some(*x) != lim_victim).collect();
                            let after_rm: Vec<u8> = cand_keys.iter().copied().filter(|x| !rm.contains(x) && !removed_stale.contains(x)).collect();
                            if let Some(_) = lim_victim {
                                match cfg.limit {
                                    Some(nlim) if after_rm.len() > nlim => {}
                                    _ => continue,
                                }
                            }
                            let t_after_rm = tot(&mut after_rm.iter().copied());
                            if t_after_rm > m {
                                continue;
                            }
                            // already-expired entries that also went may still have been present when the last
                            // real victim was chosen (they may be purged at any time, before or after)
                            let stale_total: usize = removed_stale.iter().map(|x| cand[x].footprint).sum();
                            if rm.is_empty() || rm.iter().any(|last| t_after_rm + cand[last].footprint + stale_total > m) {
                                explained = true;
                                break;
                            }
                        }
                        if !explained {
                            obs.findings.push(Finding { property: "C05", monitor: "needless-eviction", detail: format!("put k{k} ({fp} bytes): removed {:?} although the total {} (with the new value) and max_memory {m} do not require it", removed, tot(&mut cand_keys.iter().copied())) });
                            // neither the memory bound nor the entry limit asked for it: with a limit configured that is the
                            // limit's exactness clause as well ("a store that does not overflow removes nothing")
                            if let Some(nlim) = cfg.limit {
                                if n <= nlim && tot(&mut cand_keys.iter().copied()) <= m {
                                    obs.findings.push(Finding { property: "C04", monitor: "needless-eviction", detail: format!("put k{k}: {} entries (with the new one), limit {nlim}, {} of {m} bytes: nothing overflows, yet {:?} went", n, tot(&mut cand_keys.iter().copied()), removed) });
                                }
                            }
                        }
                    }
                }
                // --- C07 / C08: which entries went
                let policy_removed: BTreeSet<u8> = removed.iter().copied().filter(|x| !(oversized && *x == k) && !removed_stale.contains(x)).collect();
                if !policy_removed.is_empty() {
                    match cfg.policy {
                        Pol::Fifo | Pol::Lru => {
                            let mut ord: Vec<u8> = cand_keys.iter().copied().filter(|x| !removed_stale.contains(x)).collect();
                            if cfg.policy == Pol::Fifo {
                                ord.sort_by_key(|x| cand[x].stored_seq);
                            } else {
                                ord.sort_by_key(|x| cand[x].last_use);
                            }
                            let want: BTreeSet<u8> = ord.iter().copied().take(policy_removed.len()).collect();
                            if want != policy_removed {
                                obs.findings.push(Finding { property: "C07", monitor: "wrong-victim", detail: format!("put k{k}: removed {:?}, {} order (oldest first) is {:?}", policy_removed, cfg.policy.name(), ord) });
                            }
                        }
                        Pol::Lfu | Pol::Arc | Pol::Tlru => {
                            let live_cand: Vec<u8> = cand_keys.iter().copied().filter(|x| !removed_stale.contains(x)).collect();
                            if !self.explain_c08(&live_cand, &policy_removed, k, &cand) {
                                let desc: Vec<String> = cand_keys.iter().map(|x| format!("k{x}:hits={},last_use={},age={:.1}s", cand[x].hits, cand[x].last_use, (self.now_ns - cand[x].born_ns) as f64 / NS as f64)).collect();
                                obs.findings.push(Finding { property: "C08", monitor: "not-a-minimiser", detail: format!("put k{k}: removed {:?}; candidates {:?}; admissible first victims {:?}", policy_removed, desc, self.minimisers(&cand_keys, &cand)) });
                            }
                        }
                        Pol::Random => {}
                    }
                }
                // --- ghost update
                if post_keys.contains(&k) {
                    let kept_old = post.store.get(&name).map_or(false, |e| e.ident != (k, variant));
                    if kept_old {
                        // the store did not take the new value (oversized re-store, or the keep-first defect): keep the old ghost
                        if let Some(o) = old.clone() {
                            cand.insert(k, o);
                        }
                    }
                    self.purged.remove(&k);
                }
                cand.retain(|kk, _| post_keys.contains(kk));
                self.ghost = cand;
                obs.kind = format!("put/{}{}{}", if old.is_some() { "restore" } else { "new" }, if oversized { "/oversized" } else { "" }, match removed.len() { 0 => "".to_string(), n => format!("/evict{n}") });
                self.check_stats(&post, &mut obs);
                obs
            }
        }
    }

    fn check_stats(&self, post: &Snap, obs: &mut StepObs) {
        if post.hits != self.hit_count || post.misses != self.lookups - self.hit_count {
            obs.findings.push(Finding {
                property: "C15",
                monitor: "stats-mismatch",
                detail: format!("stats say hits={} misses={}, performed lookups={} of which hits={}", post.hits, post.misses, self.lookups, self.hit_count),
            });
        }
    }

    /// canonical key of (implementation state, ghost state, clock phase)
    pub fn state_key(&self) -> String {
        let cfg = &self.spec.cfg;
        let snap = self.subj.snap();
        let cap_age = |a: u64| -> u64 {
            match cfg.ttl {
                None => 0,
                Some(t) => a.min((t + 1) * NS),
            }
        };
        let mut s = String::new();
        use std::fmt::Write;
        for (k, e) in &snap.store {
            let _ = write!(s, "{k}={}.{}h{}a{}f{};", e.ident.0, e.ident.1, e.hits, cap_age(e.age_ns), e.footprint);
        }
        s.push('|');
        for k in &snap.order {
            s.push_str(k);
            s.push(',');
        }
        s.push('|');
        let rank = |f: &dyn Fn(&Ghost) -> u64, k: u8| -> usize { self.ghost.values().filter(|g| f(g) < f(&self.ghost[&k])).count() };
        for (k, g) in &self.ghost {
            let _ = write!(
                s,
                "{k}:{}s{}u{}h{}a{};",
                g.variant,
                rank(&|g| g.stored_seq, *k),
                rank(&|g| g.last_use, *k),
                if cfg.policy.counts_hits() { g.hits } else { 0 },
                cap_age(self.now_ns - g.born_ns)
            );
        }
        if cfg.ttl.is_some() {
            let _ = write!(s, "|ph{}", self.now_ns % NS);
        }
        if self.spec.include_stats {
            let _ = write!(s, "|st{},{},{},{}", snap.hits, snap.misses, self.lookups, self.hit_count);
        }
        if !self.purged.is_empty() {
            let _ = write!(s, "|pg{:?}", self.purged);
        }
        s
    }
}

// ---------------------------------------------------------------------------------------------
// breadth-first search
// ---------------------------------------------------------------------------------------------

type Hist = Vec<(Op, Vec<usize>)>;

#[derive(Default)]
pub struct ConfigResult {
    pub states: u64,
    pub transitions: u64,
    pub depth_completed: usize,
    pub closure: bool,
    pub kinds: BTreeMap<String, u64>,
    pub violations: Vec<Violation>,
    pub samples: Vec<J>,
    pub random_branches: u64,
    pub state_cap_hit: bool,
}

fn hist_json(h: &Hist) -> J {
    J::Arr(h.iter().map(|(op, ch)| if ch.is_empty() { J::Str(op.render()) } else { J::Str(format!("{} #{:?}", op.render(), ch)) }).collect())
}

pub fn replay_json(spec: &Spec, h: &Hist) -> J {
    J::obj()
        .set("engine", "seqx")
        .set("config", spec.to_json())
        .set("ops", J::Arr(h.iter().map(|(op, _)| J::Str(op.render())).collect()))
        .set("choices", J::Arr(h.iter().map(|(_, c)| J::Arr(c.iter().map(|x| J::Int(*x as i64)).collect())).collect()))
}

/// Run one history from a reset cache; returns the runner after the last step and that step's observation.
pub fn run_history<V: Val>(spec: &Spec, h: &[(Op, Vec<usize>)], last_prefix: Option<(Op, &[usize])>) -> (Runner<V>, Option<StepObs>, Vec<(usize, usize)>) {
    let mut runner = Runner::<V>::new(spec);
    for (op, ch) in h {
        let (o, _) = vsched::run_with_choices(ch, || runner.apply(*op, false));
        if o.panicked {
            // a prefix that panicked is never extended; treat as machinery error if it happens on replay
            vsched::machinery_failure("history prefix panicked on replay");
        }
    }
    match last_prefix {
        None => (runner, None, Vec::new()),
        Some((op, pre)) => {
            let (o, trace) = vsched::run_with_choices(pre, || runner.apply(op, true));
            (runner, Some(o), trace)
        }
    }
}

pub fn explore_config<V: Val>(spec: &Spec, property: &str, state_cap: u64) -> ConfigResult {
    let mut res = ConfigResult::default();
    let alphabet = spec.alphabet();
    let mut seen: HashSet<(u64, u64)> = HashSet::new();
    let (r0, _, _) = run_history::<V>(spec, &[], None);
    seen.insert(key128(&r0.state_key()));
    drop(r0);
    res.states = 1;
    let mut frontier: Vec<Hist> = vec![Vec::new()];
    let mut per_sig: HashMap<String, usize> = HashMap::new();
    let mut best_evict: (usize, Option<Hist>) = (0, None);
    let mut first_nonempty: Option<Hist> = None;
    for depth in 0..spec.depth {
        let mut next: Vec<Hist> = Vec::new();
        for h in &frontier {
            for op in &alphabet {
                let mut prefix: Vec<usize> = Vec::new();
                loop {
                    let (runner, obs, trace) = run_history::<V>(spec, h, Some((*op, &prefix)));
                    let obs = obs.unwrap();
                    res.transitions += 1;
                    if trace.len() > 0 {
                        res.random_branches += 1;
                    }
                    *res.kinds.entry(obs.kind.clone()).or_insert(0) += 1;
                    let mut nh = h.clone();
                    nh.push((*op, trace.iter().map(|x| x.0).collect()));
                    for f in &obs.findings {
                        if f.property != property {
                            continue;
                        }
                        let sig = format!("{}/{}/{}/{}", f.property, spec.cfg.flavour.name(), spec.cfg.policy.name(), f.monitor);
                        let c = per_sig.entry(sig.clone()).or_insert(0);
                        *c += 1;
                        if *c <= 2 {
                            res.violations.push(Violation {
                                property: f.property,
                                signature: sig,
                                detail: format!("{} | config {} | history {}", f.detail, spec.cfg.label(), hist_json(&nh).render()),
                                replay: replay_json(spec, &nh),
                            });
                        }
                    }
                    if !obs.panicked {
                        let key = key128(&runner.state_key());
                        if seen.insert(key) {
                            res.states += 1;
                            if obs.removed.len() >= best_evict.0.max(1) && best_evict.1.as_ref().map_or(true, |b| b.len() < nh.len() || obs.removed.len() > best_evict.0) {
                                best_evict = (obs.removed.len(), Some(nh.clone()));
                            }
                            if first_nonempty.is_none() {
                                first_nonempty = Some(nh.clone());
                            }
                            next.push(nh);
                        }
                    }
                    drop(runner);
                    match vsched::next_prefix(&trace, 0) {
                        Some(p) => prefix = p,
                        None => break,
                    }
                }
            }
            if res.states > state_cap {
                res.state_cap_hit = true;
                break;
            }
        }
        if res.state_cap_hit {
            break;
        }
        res.depth_completed = depth + 1;
        if next.is_empty() {
            res.closure = true;
            break;
        }
        frontier = next;
    }
    if let Some(h) = first_nonempty {
        res.samples.push(J::obj().set("what", "shortest").set("history", hist_json(&h)));
    }
    if let Some(h) = best_evict.1 {
        res.samples.push(J::obj().set("what", "history ending in the most removals").set("removed", best_evict.0).set("history", hist_json(&h)));
    }
    if let Some(h) = frontier.last() {
        res.samples.push(J::obj().set("what", "a deepest representative").set("history", hist_json(h)));
    }
    res
}

// ---------------------------------------------------------------------------------------------
// configuration menus per property and tier
// ---------------------------------------------------------------------------------------------

pub struct MemPlan {
    pub tight: usize,
    pub loose: usize,
    /// variant -> payload; variant 3 is larger than `loose`
    pub payloads: [usize; 4],
}

pub fn mem_plan<V: Val>() -> MemPlan {
    let p = [8usize, 24, 56, 0];
    let f: Vec<usize> = p[..3].iter().map(|x| V::make(0, 0, *x).footprint()).collect();
    let tight = f[0] + f[1] + 8;
    let loose = f[0] + f[1] + f[2] + 8;
    // oversize payload: grow until the footprint exceeds `loose`
    let mut big = 64;
    while V::make(0, 0, big).footprint() <= loose {
        big += 32;
    }
    MemPlan { tight, loose, payloads: [p[0], p[1], p[2], big] }
}

pub fn specs_for<V: Val>(property: &str, thorough: bool) -> Vec<Spec> {
    let mp = mem_plan::<V>();
    let mut out = Vec::new();
    let limits: Vec<Option<usize>> = if thorough && property != "C16" {
        vec![None, Some(1), Some(2), Some(3), Some(4)]
    } else if thorough || property == "C07" {
        vec![None, Some(1), Some(2), Some(3)]
    } else {
        vec![None, Some(1), Some(2)]
    };
    let ttls: Vec<Option<u64>> = if thorough { vec![None, Some(1), Some(2), Some(3)] } else { vec![None, Some(2)] };
    let mems: Vec<Option<usize>> = if thorough { vec![None, Some(mp.tight), Some(mp.loose)] } else { vec![None, Some(mp.tight)] };
    for fl in Flavour::ALL {
        for pol in Pol::ALL {
            let fws: Vec<Option<f64>> = if pol == Pol::Tlru {
                if thorough {
                    vec![None, Some(0.1), Some(0.3), Some(1.0), Some(1.5), Some(3.0)]
                } else {
                    vec![None, Some(0.3), Some(3.0)]
                }
            } else {
                vec![None]
            };
            for lim in &limits {
                for ttl in &ttls {
                    for mem in &mems {
                        for fw in &fws {
                            let cfg = Config { flavour: fl, policy: pol, limit: *lim, ttl: *ttl, max_memory: *mem, fw: *fw, vtype: V::NAME };
                            if let Some(s) = spec_for::<V>(property, thorough, cfg, &mp) {
                                // async TLRU with ttl: the age factor only moves in whole seconds, so the same depth with
                                // whole-second steps reaches ages (and score orders) that half-second steps do not
                                let coarse = if property == "C08" && s.cfg.flavour == Flavour::Async && s.cfg.policy == Pol::Tlru && s.cfg.ttl.is_some() {
                                    let mut c = s.clone();
                                    c.tick_ns = Some(NS);
                                    Some(c)
                                } else {
                                    None
                                };
                                out.push(s);
                                out.extend(coarse);
                            }
                        }
                    }
                }
            }
        }
    }
    out
}

fn spec_for<V: Val>(property: &str, thorough: bool, cfg: Config, mp: &MemPlan) -> Option<Spec> {
    let lim = cfg.limit;
    let has_ttl = cfg.ttl.is_some();
    let has_mem = cfg.max_memory.is_some();
    let hitc = cfg.policy.counts_hits();
    // relevance filter per property
    let relevant = match property {
        "C01" => !(has_mem && has_ttl) && cfg.fw.is_none(),
        "C04" => lim.is_some() && cfg.fw.is_none(),
        "C05" => has_mem && cfg.fw.is_none() && (!has_ttl || thorough && cfg.ttl == Some(2)),
        // (the memory-aware store paths are separate code: two policies with a budget as well)
        "C06" => has_ttl && cfg.fw.is_none() && (!has_mem || matches!(cfg.policy, Pol::Fifo | Pol::Lru)),
        "C07" => matches!(cfg.policy, Pol::Fifo | Pol::Lru) && (lim.is_some() || has_mem) && !has_ttl,
        "C08" => hitc && (lim.is_some() || has_mem) && (cfg.ttl.is_none() || cfg.ttl == Some(2)) && (cfg.fw.is_none() || cfg.policy == Pol::Tlru),
        "C15" => !has_mem && cfg.fw.is_none() && lim.map_or(true, |l| l <= 2),
        "C16" => true,
        _ => false,
    };
    if !relevant {
        return None;
    }
    let nkeys = match lim {
        Some(l) => (l + 1) as u8,
        None => 3,
    };
    let variants: Vec<(u8, usize)> = if has_mem {
        // variant 2 fits alone but not next to anything else under the tight budget (a newcomer that is
        // larger than everything that remains)
        if thorough || matches!(property, "C16" | "C05" | "C08") {
            vec![(0, mp.payloads[0]), (1, mp.payloads[1]), (2, mp.payloads[2]), (3, mp.payloads[3])]
        } else {
            vec![(0, mp.payloads[0]), (1, mp.payloads[1]), (3, mp.payloads[3])]
        }
    } else if property == "C01" || property == "C16" {
        vec![(0, 8), (1, 8)]
    } else {
        vec![(0, 8)]
    };
    let tick_ns = if has_ttl { Some(if cfg.flavour == Flavour::Async { NS / 2 } else { NS }) } else { None };
    let mut depth = if thorough { 7 } else { 5 };
    if has_ttl && cfg.flavour == Flavour::Async {
        depth += 2; // half-second ticks: twice as many steps to reach the same ages
    }
    if property == "C06" {
        // store, age, store, use, age, lookup, lookup: seven steps before a purge that takes a younger neighbour
        // with it shows (seed S74)
        depth += if thorough { 1 } else { 2 };
    }
    if has_mem && thorough {
        depth = 6;
    }
    if nkeys >= 4 && hitc {
        depth = depth.min(if thorough { 7 } else { 5 });
    }
    if property == "C16" && thorough {
        // the full product (2 000+ configurations): one level less than the policy-specific checks
        depth = depth.min(6);
    }
    Some(Spec { cfg, nkeys: nkeys.min(5), variants, depth, tick_ns, include_stats: property == "C15" })
}
