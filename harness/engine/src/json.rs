//! Minimal JSON value + writer (no serde in the offline build graph of the harness).
use std::collections::BTreeMap;
use std::fmt::Write;

#[derive(Clone, Debug, PartialEq)]
pub enum J {
    Null,
    Bool(bool),
    Int(i64),
    Num(f64),
    Str(String),
    Arr(Vec<J>),
    Obj(BTreeMap<String, J>),
}

impl Default for J {
    fn default() -> J {
        J::Null
    }
}

impl J {
    pub fn obj() -> J {
        J::Obj(BTreeMap::new())
    }
    pub fn set(mut self, k: &str, v: impl Into<J>) -> J {
        if let J::Obj(m) = &mut self {
            m.insert(k.to_string(), v.into());
        }
        self
    }
    pub fn put(&mut self, k: &str, v: impl Into<J>) {
        if let J::Obj(m) = self {
            m.insert(k.to_string(), v.into());
        }
    }
    pub fn render(&self) -> String {
        let mut s = String::new();
        self.write(&mut s);
        s
    }
    fn write(&self, s: &mut String) {
        match self {
            J::Null => s.push_str("null"),
            J::Bool(b) => s.push_str(if *b { "true" } else { "false" }),
            J::Int(i) => {
                let _ = write!(s, "{i}");
            }
            J::Num(f) => {
                if f.is_finite() {
                    let _ = write!(s, "{f}");
                } else {
                    s.push_str("null");
                }
            }
            J::Str(t) => {
                s.push('"');
                for c in t.chars() {
                    match c {
                        '"' => s.push_str("\\\""),
                        '\\' => s.push_str("\\\\"),
                        '\n' => s.push_str("\\n"),
                        '\r' => s.push_str("\\r"),
                        '\t' => s.push_str("\\t"),
                        c if (c as u32) < 0x20 => {
                            let _ = write!(s, "\\u{:04x}", c as u32);
                        }
                        c => s.push(c),
                    }
                }
                s.push('"');
            }
            J::Arr(a) => {
                s.push('[');
                for (i, x) in a.iter().enumerate() {
                    if i > 0 {
                        s.push(',');
                    }
                    x.write(s);
                }
                s.push(']');
            }
            J::Obj(m) => {
                s.push('{');
                for (i, (k, v)) in m.iter().enumerate() {
                    if i > 0 {
                        s.push(',');
                    }
                    J::Str(k.clone()).write(s);
                    s.push(':');
                    v.write(s);
                }
                s.push('}');
            }
        }
    }
}

impl From<bool> for J {
    fn from(b: bool) -> J {
        J::Bool(b)
    }
}
impl From<i64> for J {
    fn from(b: i64) -> J {
        J::Int(b)
    }
}
impl From<u64> for J {
    fn from(b: u64) -> J {
        J::Int(b as i64)
    }
}
impl From<usize> for J {
    fn from(b: usize) -> J {
        J::Int(b as i64)
    }
}
impl From<i32> for J {
    fn from(b: i32) -> J {
        J::Int(b as i64)
    }
}
impl From<f64> for J {
    fn from(b: f64) -> J {
        J::Num(b)
    }
}
impl From<&str> for J {
    fn from(b: &str) -> J {
        J::Str(b.to_string())
    }
}
impl From<String> for J {
    fn from(b: String) -> J {
        J::Str(b)
    }
}
impl From<&String> for J {
    fn from(b: &String) -> J {
        J::Str(b.clone())
    }
}
impl<T: Into<J>> From<Vec<T>> for J {
    fn from(v: Vec<T>) -> J {
        J::Arr(v.into_iter().map(Into::into).collect())
    }
}
impl<T: Into<J>> From<Option<T>> for J {
    fn from(v: Option<T>) -> J {
        match v {
            Some(x) => x.into(),
            None => J::Null,
        }
    }
}

/// Tiny reader for the flat replay files the driver hands back (`--replay`): supports the
/// full JSON grammar except exotic escapes.
pub fn parse(src: &str) -> Result<J, String> {
    let b: Vec<char> = src.chars().collect();
    let mut i = 0;
    let v = parse_val(&b, &mut i)?;
    skip_ws(&b, &mut i);
    if i != b.len() {
        return Err(format!("trailing characters at {i}"));
    }
    Ok(v)
}

fn skip_ws(b: &[char], i: &mut usize) {
    while *i < b.len() && b[*i].is_whitespace() {
        *i += 1;
    }
}

fn parse_val(b: &[char], i: &mut usize) -> Result<J, String> {
    skip_ws(b, i);
    if *i >= b.len() {
        return Err("unexpected end".into());
    }
    match b[*i] {
        '{' => {
            *i += 1;
            let mut m = BTreeMap::new();
            loop {
                skip_ws(b, i);
                if b[*i] == '}' {
                    *i += 1;
                    break;
                }
                let k = match parse_val(b, i)? {
                    J::Str(s) => s,
                    _ => return Err("object key must be a string".into()),
                };
                skip_ws(b, i);
                if b[*i] != ':' {
                    return Err(format!("expected ':' at {i}"));
                }
                *i += 1;
                let v = parse_val(b, i)?;
                m.insert(k, v);
                skip_ws(b, i);
                if b[*i] == ',' {
                    *i += 1;
                }
            }
            Ok(J::Obj(m))
        }
        '[' => {
            *i += 1;
            let mut a = Vec::new();
            loop {
                skip_ws(b, i);
                if b[*i] == ']' {
                    *i += 1;
                    break;
                }
                a.push(parse_val(b, i)?);
                skip_ws(b, i);
                if b[*i] == ',' {
                    *i += 1;
                }
            }
            Ok(J::Arr(a))
        }
        '"' => {
            *i += 1;
            let mut s = String::new();
            while b[*i] != '"' {
                if b[*i] == '\\' {
                    *i += 1;
                    match b[*i] {
                        'n' => s.push('\n'),
                        't' => s.push('\t'),
                        'r' => s.push('\r'),
                        'u' => {
                            let h: String = b[*i + 1..*i + 5].iter().collect();
                            s.push(char::from_u32(u32::from_str_radix(&h, 16).map_err(|e| e.to_string())?).unwrap_or('?'));
                            *i += 4;
                        }
                        c => s.push(c),
                    }
                } else {
                    s.push(b[*i]);
                }
                *i += 1;
            }
            *i += 1;
            Ok(J::Str(s))
        }
        't' => {
            *i += 4;
            Ok(J::Bool(true))
        }
        'f' => {
            *i += 5;
            Ok(J::Bool(false))
        }
        'n' => {
            *i += 4;
            Ok(J::Null)
        }
        _ => {
            let st = *i;
            while *i < b.len() && (b[*i].is_ascii_digit() || "+-.eE".contains(b[*i])) {
                *i += 1;
            }
            let t: String = b[st..*i].iter().collect();
            if let Ok(n) = t.parse::<i64>() {
                Ok(J::Int(n))
            } else {
                t.parse::<f64>().map(J::Num).map_err(|e| format!("bad number {t}: {e}"))
            }
        }
    }
}

impl J {
    pub fn get(&self, k: &str) -> Option<&J> {
        match self {
            J::Obj(m) => m.get(k),
            _ => None,
        }
    }
    pub fn as_str(&self) -> Option<&str> {
        match self {
            J::Str(s) => Some(s),
            _ => None,
        }
    }
    pub fn as_i64(&self) -> Option<i64> {
        match self {
            J::Int(i) => Some(*i),
            J::Num(f) => Some(*f as i64),
            _ => None,
        }
    }
    pub fn as_f64(&self) -> Option<f64> {
        match self {
            J::Int(i) => Some(*i as f64),
            J::Num(f) => Some(*f),
            _ => None,
        }
    }
    pub fn as_arr(&self) -> Option<&Vec<J>> {
        match self {
            J::Arr(a) => Some(a),
            _ => None,
        }
    }
}
