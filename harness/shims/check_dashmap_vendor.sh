#!/bin/sh
# Fails (exit 3) unless the vendored dashmap differs from the registry source only in the documented places.
set -e
here=$(cd "$(dirname "$0")" && pwd)
src=$(ls -d "$HOME"/.cargo/registry/src/*/dashmap-6.1.0 | head -1)
[ -d "$src" ] || { echo "MACHINERY-FAILURE: dashmap-6.1.0 registry source not found"; exit 3; }
changed=$(diff -rq "$src/src" "$here/dashmap/src" | sed 's/^Files .* and //; s/ differ$//' | sort | tr '\n' ' ')
want="$here/dashmap/src/lib.rs $here/dashmap/src/lock.rs "
if [ "$changed" != "$want" ]; then
  echo "MACHINERY-FAILURE: vendored dashmap differs unexpectedly: $changed"; exit 3
fi
# lib.rs: only the documented hunks (hasher; shard amount = comment line + body)
n=$(diff "$src/src/lib.rs" "$here/dashmap/src/lib.rs" | grep -c '^[0-9]' || true)
[ "$n" = "3" ] || { echo "MACHINERY-FAILURE: dashmap lib.rs has $n changed hunks, expected 3"; exit 3; }
echo "dashmap vendor check ok"
