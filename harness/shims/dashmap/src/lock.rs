// verification shim: the shard lock is vsched's instrumented raw rwlock (same lock_api traits,
// including RawRwLockDowngrade, as the parking_lot_core-based original).
pub use vsched::rawlock::RawRwLock;

pub type RwLock<T> = lock_api::RwLock<RawRwLock, T>;
pub type RwLockReadGuard<'a, T> = lock_api::RwLockReadGuard<'a, RawRwLock, T>;
pub type RwLockWriteGuard<'a, T> = lock_api::RwLockWriteGuard<'a, RawRwLock, T>;
