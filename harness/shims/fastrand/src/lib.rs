//! Stand-in for fastrand 2.3: the only entry point cachelito uses is `fastrand::usize(range)`.
//! Every draw asks the explorer for a choice in `0..n`; outside an exploration it answers 0.
use std::ops::{Bound, RangeBounds};

fn bounds(range: impl RangeBounds<usize>) -> (usize, usize) {
    let lo = match range.start_bound() {
        Bound::Included(&x) => x,
        Bound::Excluded(&x) => x + 1,
        Bound::Unbounded => 0,
    };
    let hi = match range.end_bound() {
        Bound::Included(&x) => x + 1,
        Bound::Excluded(&x) => x,
        Bound::Unbounded => panic!("fastrand shim: unbounded range"),
    };
    assert!(lo < hi, "fastrand shim: empty range");
    (lo, hi)
}

pub fn usize(range: impl RangeBounds<usize>) -> usize {
    let (lo, hi) = bounds(range);
    lo + vsched::choose(hi - lo, "fastrand")
}
