//! Stand-in for parking_lot 0.12: the real `lock_api` generic lock types over
//! instrumented raw locks. Only the raw lock differs from the real crate; every guard
//! type cachelito names (`MutexGuard<RawMutex, T>`, `RwLockWriteGuard<..>`) is lock_api's.
pub use lock_api;
pub use vsched::rawlock::{RawMutex, RawRwLock};

pub type Mutex<T> = lock_api::Mutex<RawMutex, T>;
pub type MutexGuard<'a, T> = lock_api::MutexGuard<'a, RawMutex, T>;
pub type MappedMutexGuard<'a, T> = lock_api::MappedMutexGuard<'a, RawMutex, T>;
pub type RwLock<T> = lock_api::RwLock<RawRwLock, T>;
pub type RwLockReadGuard<'a, T> = lock_api::RwLockReadGuard<'a, RawRwLock, T>;
pub type RwLockWriteGuard<'a, T> = lock_api::RwLockWriteGuard<'a, RawRwLock, T>;
pub type MappedRwLockReadGuard<'a, T> = lock_api::MappedRwLockReadGuard<'a, RawRwLock, T>;
pub type MappedRwLockWriteGuard<'a, T> = lock_api::MappedRwLockWriteGuard<'a, RawRwLock, T>;

pub const fn const_mutex<T>(val: T) -> Mutex<T> {
    Mutex::const_new(<RawMutex as lock_api::RawMutex>::INIT, val)
}
pub const fn const_rwlock<T>(val: T) -> RwLock<T> {
    RwLock::const_new(<RawRwLock as lock_api::RawRwLock>::INIT, val)
}
