//! vsched — controlled scheduler, choice points, virtual clock (DESIGN §3, §5.3, Appendix A).
//!
//! * Model threads are real OS threads; exactly one of them runs at a time. Every lock
//!   acquisition of the instrumented raw locks (`rawlock`), every `yield_point` and every
//!   `choose` is a scheduling / choice point at which the explorer decides who continues.
//! * "No enabled thread while some thread is unfinished" is a detected deadlock; the blocked
//!   threads are unwound so that the process can continue with the next schedule.
//! * Outside an exploration the raw locks are plain spin/yield locks (or, in sequential
//!   mode, report a blocked acquisition instead of hanging) and `choose` follows a
//!   thread-local script, which is what the single-threaded engines enumerate.

pub mod rawlock;
mod sched;

pub use sched::*;
