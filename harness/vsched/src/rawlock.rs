//! Instrumented raw locks implementing the real `lock_api` traits.
//!
//! State: 0 = free, -1 = exclusively held, n > 0 = n shared holders. In a controlled model
//! thread the scheduler's lock table decides when an acquisition may proceed (that is the
//! scheduling point); the atomic state is then updated as well, so that uncontrolled code
//! (warm-up, resets, probes at quiescence, the sequential engines) always sees the truth.

use crate::sched::{self, Mode};
use std::sync::atomic::{AtomicIsize, Ordering};

pub struct RawCore {
    state: AtomicIsize,
}

impl RawCore {
    pub const fn new() -> Self {
        RawCore { state: AtomicIsize::new(0) }
    }

    #[inline]
    fn addr(&self) -> usize {
        self as *const _ as usize
    }

    fn raw_try(&self, m: Mode) -> bool {
        match m {
            Mode::Excl => self
                .state
                .compare_exchange(0, -1, Ordering::Acquire, Ordering::Relaxed)
                .is_ok(),
            Mode::Shared => {
                let mut s = self.state.load(Ordering::Relaxed);
                loop {
                    if s < 0 {
                        return false;
                    }
                    match self.state.compare_exchange_weak(s, s + 1, Ordering::Acquire, Ordering::Relaxed) {
                        Ok(_) => return true,
                        Err(cur) => s = cur,
                    }
                }
            }
        }
    }

    fn lock(&self, m: Mode) {
        if sched::controlled_live() {
            sched::acquire(self.addr(), m);
            if !self.raw_try(m) {
                sched::machinery_failure("lock table and raw lock state disagree on acquire");
            }
            sched::held_point();
            return;
        }
        let mut spins = 0u64;
        loop {
            if self.raw_try(m) {
                return;
            }
            if sched::sequential_mode_on() {
                // Single-threaded engine: nobody else can ever release this lock.
                panic!(
                    "{} {:?} acquisition of a lock that is already held (state {})",
                    sched::SELF_DEADLOCK_MARK,
                    m,
                    self.state.load(Ordering::Relaxed)
                );
            }
            spins += 1;
            if spins > 50_000_000 {
                sched::machinery_failure("uncontrolled lock acquisition spun for too long");
            }
            std::thread::yield_now();
        }
    }

    fn try_lock(&self, m: Mode) -> bool {
        if sched::controlled_live() {
            let ok = sched::try_acquire(self.addr(), m);
            if ok && !self.raw_try(m) {
                sched::machinery_failure("lock table and raw lock state disagree on try_acquire");
            }
            return ok;
        }
        self.raw_try(m)
    }

    fn unlock(&self, m: Mode) {
        match m {
            Mode::Excl => {
                self.state.store(0, Ordering::Release);
            }
            Mode::Shared => {
                self.state.fetch_sub(1, Ordering::Release);
            }
        }
        sched::release(self.addr(), m);
    }

    fn downgrade(&self) {
        self.state.store(1, Ordering::Release);
        sched::downgrade(self.addr());
    }

    pub fn is_locked(&self) -> bool {
        self.state.load(Ordering::Relaxed) != 0
    }
    pub fn is_locked_excl(&self) -> bool {
        self.state.load(Ordering::Relaxed) < 0
    }
}

pub struct RawMutex(RawCore);

unsafe impl lock_api::RawMutex for RawMutex {
    #[allow(clippy::declare_interior_mutable_const)]
    const INIT: RawMutex = RawMutex(RawCore::new());
    type GuardMarker = lock_api::GuardNoSend;

    fn lock(&self) {
        self.0.lock(Mode::Excl)
    }
    fn try_lock(&self) -> bool {
        self.0.try_lock(Mode::Excl)
    }
    unsafe fn unlock(&self) {
        self.0.unlock(Mode::Excl)
    }
    fn is_locked(&self) -> bool {
        self.0.is_locked()
    }
}

pub struct RawRwLock(RawCore);

unsafe impl lock_api::RawRwLock for RawRwLock {
    #[allow(clippy::declare_interior_mutable_const)]
    const INIT: RawRwLock = RawRwLock(RawCore::new());
    type GuardMarker = lock_api::GuardNoSend;

    fn lock_shared(&self) {
        self.0.lock(Mode::Shared)
    }
    fn try_lock_shared(&self) -> bool {
        self.0.try_lock(Mode::Shared)
    }
    unsafe fn unlock_shared(&self) {
        self.0.unlock(Mode::Shared)
    }
    fn lock_exclusive(&self) {
        self.0.lock(Mode::Excl)
    }
    fn try_lock_exclusive(&self) -> bool {
        self.0.try_lock(Mode::Excl)
    }
    unsafe fn unlock_exclusive(&self) {
        self.0.unlock(Mode::Excl)
    }
    fn is_locked(&self) -> bool {
        self.0.is_locked()
    }
    fn is_locked_exclusive(&self) -> bool {
        self.0.is_locked_excl()
    }
}

unsafe impl lock_api::RawRwLockDowngrade for RawRwLock {
    unsafe fn downgrade(&self) {
        self.0.downgrade()
    }
}
