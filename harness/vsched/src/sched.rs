use std::cell::{Cell, RefCell};
use std::collections::HashMap;
use std::panic::{catch_unwind, resume_unwind, AssertUnwindSafe};
use std::sync::atomic::{AtomicBool, AtomicU64, Ordering};
use std::sync::{Condvar, Mutex, MutexGuard};

// ---------------------------------------------------------------------------------------------
// public vocabulary
// ---------------------------------------------------------------------------------------------

#[derive(Clone, Copy, Debug, PartialEq, Eq, Hash)]
pub enum Mode {
    Shared,
    Excl,
}

/// How a shared acquisition behaves while a writer is waiting (DESIGN §3.5): both are real
/// behaviours of parking_lot / DashMap rwlocks, so every threaded check explores both.
#[derive(Clone, Copy, Debug, PartialEq, Eq, Hash)]
pub enum RwPolicy {
    /// a reader gets in whenever no writer *holds* the lock
    ReadersBarge,
    /// a reader waits as soon as a writer is waiting behind current readers
    WriterPreference,
}

#[derive(Clone, Debug, PartialEq, Eq, Hash)]
pub enum Op {
    Start,
    Acquire(usize, Mode),
    TryAcquire(usize, Mode),
    Yield(&'static str),
}

#[derive(Clone, Copy, Debug, PartialEq, Eq, Hash)]
pub enum PointKind {
    Sched,
    Choice,
}

#[derive(Clone, Debug)]
pub struct Point {
    pub kind: PointKind,
    /// thread that reached the point (usize::MAX for the initial decision)
    pub thread: usize,
    /// what that thread is about to do, rendered with per-execution lock numbers
    pub what: String,
    /// Sched: enabled thread ids in canonical order (running thread first if still enabled,
    /// then ascending ids); Choice: 0..n
    pub enabled: Vec<usize>,
    /// index into `enabled`
    pub chosen: usize,
    /// Sched only: the deciding thread could have continued (so chosen != 0 is a preemption)
    pub running_enabled: bool,
}

#[derive(Clone, Debug)]
pub struct DeadlockReport {
    /// (thread, pending operation, locks held), lock numbers are per-execution first-use order
    pub threads: Vec<(usize, String, Vec<String>)>,
}

#[derive(Clone, Debug, Default)]
pub struct Outcome {
    pub points: Vec<Point>,
    pub deadlock: Option<DeadlockReport>,
    pub panics: Vec<(usize, String)>,
    pub capped: bool,
    pub diverged: Option<String>,
    /// lock-order edges (held lock address -> requested lock address) seen in this execution
    pub lock_edges: Vec<(usize, usize)>,
}

impl Outcome {
    pub fn choices(&self) -> Vec<usize> {
        self.points.iter().map(|p| p.chosen).collect()
    }
    pub fn preemptions(&self) -> usize {
        self.points
            .iter()
            .filter(|p| p.kind == PointKind::Sched && p.running_enabled && p.chosen != 0)
            .count()
    }
    pub fn render_schedule(&self) -> Vec<String> {
        self.points
            .iter()
            .map(|p| match p.kind {
                PointKind::Sched => format!(
                    "T{} at {} | enabled {:?} -> T{}",
                    if p.thread == usize::MAX { "-".to_string() } else { p.thread.to_string() },
                    p.what,
                    p.enabled,
                    p.enabled[p.chosen]
                ),
                PointKind::Choice => format!("T{} {} -> {} of {}", p.thread, p.what, p.chosen, p.enabled.len()),
            })
            .collect()
    }
}

pub type Thunk = Box<dyn FnOnce() + Send + 'static>;

pub const SELF_DEADLOCK_MARK: &str = "VSCHED-BLOCKED-ACQUISITION:";

pub fn machinery_failure(msg: &str) -> ! {
    eprintln!("MACHINERY-FAILURE: {msg}");
    std::process::exit(3);
}

// ---------------------------------------------------------------------------------------------
// global switches: sequential mode, virtual clock, atomic points
// ---------------------------------------------------------------------------------------------

static SEQ_MODE: AtomicBool = AtomicBool::new(false);
static CLOCK_ON: AtomicBool = AtomicBool::new(false);
static CLOCK_NS: AtomicU64 = AtomicU64::new(0);
static ATOMIC_POINTS: AtomicBool = AtomicBool::new(false);

/// E2/E4: no other thread exists, so acquiring a held lock panics (reported) instead of spinning.
pub fn sequential_mode(on: bool) {
    SEQ_MODE.store(on, Ordering::SeqCst);
}
pub fn sequential_mode_on() -> bool {
    SEQ_MODE.load(Ordering::Relaxed)
}

pub fn clock_freeze(at_ns: u64) {
    CLOCK_NS.store(at_ns, Ordering::SeqCst);
    CLOCK_ON.store(true, Ordering::SeqCst);
}
pub fn clock_advance(ns: u64) {
    CLOCK_NS.fetch_add(ns, Ordering::SeqCst);
}
pub fn clock_release() {
    CLOCK_ON.store(false, Ordering::SeqCst);
}
/// Installed into `cachelito_core::verif_hooks` as the clock callback.
pub fn clock_now() -> Option<u64> {
    if CLOCK_ON.load(Ordering::SeqCst) {
        Some(CLOCK_NS.load(Ordering::SeqCst))
    } else {
        None
    }
}

static HELD_POINTS: std::sync::atomic::AtomicBool = std::sync::atomic::AtomicBool::new(false);
/// Whether a thread may be descheduled right after it has acquired a lock, i.e. *while holding it* with no further
/// acquisition pending. Lock-acquisition points alone never show a lock as held to code that only *tries* a lock
/// (`try_read`, `try_lock`): with this on, they do.
pub fn set_held_points(on: bool) {
    HELD_POINTS.store(on, Ordering::SeqCst);
}
pub fn held_point() {
    if HELD_POINTS.load(Ordering::Relaxed) && controlled_live() {
        point(Op::Yield("holding"));
    }
}

/// Whether the statistics atomics (hook H1) are scheduling points.
pub fn set_atomic_points(on: bool) {
    ATOMIC_POINTS.store(on, Ordering::SeqCst);
}
/// Installed into `cachelito_core::verif_hooks` as the point callback.
pub fn atomic_point(tag: &'static str) {
    if ATOMIC_POINTS.load(Ordering::Relaxed) && controlled_live() {
        point(Op::Yield(tag));
    }
}

// ---------------------------------------------------------------------------------------------
// sequential choice script (single-threaded engines)
// ---------------------------------------------------------------------------------------------

struct Script {
    prefix: Vec<usize>,
    trace: Vec<(usize, usize)>,
    /// while set, `choose` re-answers the recorded choices from this position on (not recorded again)
    replay_cursor: Option<usize>,
}

thread_local! {
    static TID: Cell<Option<usize>> = const { Cell::new(None) };
    static SCRIPT: RefCell<Option<Script>> = const { RefCell::new(None) };
}

/// Run `f` with `choose` answering from `prefix` and 0 afterwards; returns the result and the
/// full (chosen, arity) trace.
pub fn run_with_choices<T>(prefix: &[usize], f: impl FnOnce() -> T) -> (T, Vec<(usize, usize)>) {
    SCRIPT.with(|s| {
        *s.borrow_mut() = Some(Script { prefix: prefix.to_vec(), trace: Vec::new(), replay_cursor: None });
    });
    let r = catch_unwind(AssertUnwindSafe(f));
    let trace = SCRIPT.with(|s| s.borrow_mut().take().map(|s| s.trace).unwrap_or_default());
    match r {
        Ok(v) => (v, trace),
        Err(p) => resume_unwind(p),
    }
}

/// Number of choices recorded so far in the running script (0 outside a script).
pub fn choice_mark() -> usize {
    SCRIPT.with(|s| s.borrow().as_ref().map_or(0, |sc| sc.trace.len()))
}

/// Run `f` with `choose` giving the answers recorded from position `from` on once more: lets a
/// reference implementation draw the same "random" numbers as the subject did in this step.
pub fn with_replayed_choices<T>(from: usize, f: impl FnOnce() -> T) -> T {
    SCRIPT.with(|s| {
        if let Some(sc) = s.borrow_mut().as_mut() {
            sc.replay_cursor = Some(from);
        }
    });
    let r = f();
    SCRIPT.with(|s| {
        if let Some(sc) = s.borrow_mut().as_mut() {
            sc.replay_cursor = None;
        }
    });
    r
}

/// Depth-first successor of a choice trace: bump the last choice that has an untried
/// alternative at a position >= `fixed`, drop everything after it.
pub fn next_prefix(trace: &[(usize, usize)], fixed: usize) -> Option<Vec<usize>> {
    let mut i = trace.len();
    while i > fixed {
        i -= 1;
        let (c, n) = trace[i];
        if c + 1 < n {
            let mut p: Vec<usize> = trace[..i].iter().map(|x| x.0).collect();
            p.push(c + 1);
            return Some(p);
        }
    }
    None
}

/// Enumerate every answer vector of the `choose` calls made by `f`.
pub fn for_all_choices<T>(mut f: impl FnMut() -> T, mut each: impl FnMut(&[(usize, usize)], T)) -> u64 {
    let mut prefix: Vec<usize> = Vec::new();
    let mut runs = 0;
    loop {
        let (r, trace) = run_with_choices(&prefix, &mut f);
        runs += 1;
        each(&trace, r);
        match next_prefix(&trace, 0) {
            Some(p) => prefix = p,
            None => return runs,
        }
    }
}

/// An enumerated environment answer in `0..n` (random victim, predicate verdict, Ok/Err ...).
pub fn choose(n: usize, tag: &'static str) -> usize {
    if n <= 1 {
        return 0;
    }
    if controlled_live() {
        return choice_point(n, tag);
    }
    SCRIPT.with(|s| {
        let mut s = s.borrow_mut();
        match s.as_mut() {
            Some(sc) => {
                if let Some(cur) = sc.replay_cursor {
                    // a reference run re-drawing the subject's answers; beyond them it draws 0
                    let c = sc.trace.get(cur).map_or(0, |x| x.0.min(n - 1));
                    sc.replay_cursor = Some(cur + 1);
                    return c;
                }
                let pos = sc.trace.len();
                let c = if pos < sc.prefix.len() { sc.prefix[pos] } else { 0 };
                if c >= n {
                    machinery_failure(&format!("choice script diverged: answer {c} of {n} at position {pos} ({tag})"));
                }
                sc.trace.push((c, n));
                c
            }
            None => 0,
        }
    })
}

// ---------------------------------------------------------------------------------------------
// the controlled scheduler
// ---------------------------------------------------------------------------------------------

#[derive(Default)]
struct LockSt {
    writer: Option<usize>,
    readers: Vec<usize>,
}

struct Exec {
    n: usize,
    finished: Vec<bool>,
    pending: Vec<Option<Op>>,
    try_result: Vec<bool>,
    held: Vec<Vec<(usize, Mode)>>,
    current: Option<usize>,
    locks: HashMap<usize, LockSt>,
    lock_ids: HashMap<usize, usize>,
    prefix: Vec<usize>,
    expect: Vec<u64>,
    points: Vec<Point>,
    policy: RwPolicy,
    abort: bool,
    done: bool,
    deadlock: Option<DeadlockReport>,
    capped: bool,
    diverged: Option<String>,
    panics: Vec<(usize, String)>,
    step_cap: usize,
    edges: Vec<(usize, usize)>,
}

static STATE: Mutex<Option<Exec>> = Mutex::new(None);
static CV: Condvar = Condvar::new();

struct SchedAbort;

fn state() -> MutexGuard<'static, Option<Exec>> {
    STATE.lock().unwrap_or_else(|e| e.into_inner())
}

pub fn controlled() -> bool {
    TID.with(|t| t.get().is_some())
}

/// Controlled, and able to take part in scheduling (not unwinding).
pub fn controlled_live() -> bool {
    controlled() && !std::thread::panicking()
}

pub fn fingerprint(kind: PointKind, thread: usize, enabled: &[usize]) -> u64 {
    let mut h: u64 = 0xcbf29ce484222325;
    let mut mix = |x: u64| {
        h ^= x;
        h = h.wrapping_mul(0x100000001b3);
    };
    mix(kind as u64 + 1);
    mix(thread as u64);
    for e in enabled {
        mix(*e as u64 + 7);
    }
    h
}

impl Exec {
    fn lock_name(&mut self, addr: usize) -> String {
        let next = self.lock_ids.len();
        let id = *self.lock_ids.entry(addr).or_insert(next);
        format!("L{id}")
    }

    fn op_name(&mut self, op: &Op) -> String {
        match op {
            Op::Start => "start".into(),
            Op::Acquire(a, m) => format!("acquire({}, {:?})", self.lock_name(*a), m),
            Op::TryAcquire(a, m) => format!("try_acquire({}, {:?})", self.lock_name(*a), m),
            Op::Yield(t) => format!("yield({t})"),
        }
    }

    fn op_enabled(&self, t: usize, op: &Op) -> bool {
        match op {
            Op::Start | Op::Yield(_) | Op::TryAcquire(..) => true,
            Op::Acquire(a, Mode::Excl) => match self.locks.get(a) {
                None => true,
                Some(l) => l.writer.is_none() && l.readers.is_empty(),
            },
            Op::Acquire(a, Mode::Shared) => match self.locks.get(a) {
                None => true,
                Some(l) => {
                    if l.writer.is_some() {
                        return false;
                    }
                    if self.policy == RwPolicy::WriterPreference && !l.readers.is_empty() {
                        // a writer waiting behind the current readers blocks new readers
                        let writer_waiting = (0..self.n).any(|u| {
                            u != t && !self.finished[u] && self.pending[u] == Some(Op::Acquire(*a, Mode::Excl))
                        });
                        if writer_waiting {
                            return false;
                        }
                    }
                    true
                }
            },
        }
    }

    fn next_choice(&mut self, kind: PointKind, thread: usize, enabled: &[usize]) -> usize {
        let pos = self.points.len();
        if pos < self.prefix.len() {
            let c = self.prefix[pos];
            let fp = fingerprint(kind, thread, enabled);
            if c >= enabled.len() || (pos < self.expect.len() && self.expect[pos] != fp) {
                if self.diverged.is_none() {
                    self.diverged = Some(format!(
                        "replay diverged at point {pos}: choice {c}, now {kind:?} thread {thread} enabled {enabled:?}"
                    ));
                }
                return 0;
            }
            c
        } else {
            0
        }
    }

    /// `me` reached a point (alive = it is parked with a pending op) or finished (alive = false).
    fn decide(&mut self, me: usize, alive: bool) {
        if self.abort {
            return;
        }
        if self.points.len() >= self.step_cap {
            self.capped = true;
            self.abort = true;
            return;
        }
        let mut en: Vec<usize> = Vec::new();
        let mut running_enabled = false;
        if alive {
            let op = self.pending[me].clone().unwrap();
            if self.op_enabled(me, &op) {
                en.push(me);
                running_enabled = true;
            }
        }
        for t in 0..self.n {
            if t == me || self.finished[t] {
                continue;
            }
            if let Some(op) = self.pending[t].clone() {
                if self.op_enabled(t, &op) {
                    en.push(t);
                }
            }
        }
        if en.is_empty() {
            if self.finished.iter().all(|f| *f) {
                self.done = true;
                self.current = None;
            } else {
                let mut threads = Vec::new();
                for t in 0..self.n {
                    if self.finished[t] {
                        continue;
                    }
                    let op = self.pending[t].clone().unwrap_or(Op::Start);
                    let pend = self.op_name(&op);
                    let held: Vec<(usize, Mode)> = self.held[t].clone();
                    let held = held.iter().map(|(a, m)| format!("{}:{:?}", self.lock_name(*a), m)).collect();
                    threads.push((t, pend, held));
                }
                self.deadlock = Some(DeadlockReport { threads });
                self.abort = true;
                self.current = None;
            }
            return;
        }
        let idx = self.next_choice(PointKind::Sched, me, &en);
        let what = if alive {
            let op = self.pending[me].clone().unwrap();
            self.op_name(&op)
        } else if me == usize::MAX {
            "spawn".to_string()
        } else {
            "exit".to_string()
        };
        self.current = Some(en[idx]);
        self.points.push(Point { kind: PointKind::Sched, thread: me, what, enabled: en, chosen: idx, running_enabled });
    }

    fn apply(&mut self, me: usize) {
        let op = self.pending[me].take().unwrap();
        match op {
            Op::Start | Op::Yield(_) => {}
            Op::Acquire(a, m) => self.grant(me, a, m),
            Op::TryAcquire(a, m) => {
                let free = match self.locks.get(&a) {
                    None => true,
                    Some(l) => match m {
                        Mode::Excl => l.writer.is_none() && l.readers.is_empty(),
                        Mode::Shared => l.writer.is_none(),
                    },
                };
                self.try_result[me] = free;
                if free {
                    self.grant(me, a, m);
                }
            }
        }
    }

    fn grant(&mut self, me: usize, a: usize, m: Mode) {
        for (h, _) in &self.held[me] {
            if *h != a && !self.edges.contains(&(*h, a)) {
                self.edges.push((*h, a));
            }
        }
        let l = self.locks.entry(a).or_default();
        match m {
            Mode::Excl => l.writer = Some(me),
            Mode::Shared => l.readers.push(me),
        }
        self.held[me].push((a, m));
    }

    fn release(&mut self, me: usize, a: usize, m: Mode) {
        if let Some(l) = self.locks.get_mut(&a) {
            match m {
                Mode::Excl => {
                    if l.writer == Some(me) {
                        l.writer = None;
                    }
                }
                Mode::Shared => {
                    if let Some(p) = l.readers.iter().position(|r| *r == me) {
                        l.readers.remove(p);
                    }
                }
            }
        }
        if let Some(p) = self.held[me].iter().rposition(|(h, hm)| *h == a && *hm == m) {
            self.held[me].remove(p);
        }
    }
}

/// Park at a scheduling point until the explorer hands this thread the baton.
fn point(op: Op) {
    let me = TID.with(|t| t.get()).expect("point() outside a model thread");
    let mut g = state();
    {
        let ex = match g.as_mut() {
            Some(ex) => ex,
            None => return,
        };
        if ex.abort {
            drop(g);
            resume_unwind(Box::new(SchedAbort));
        }
        ex.pending[me] = Some(op);
        ex.decide(me, true);
    }
    CV.notify_all();
    loop {
        let ex = g.as_mut().unwrap();
        if ex.abort {
            ex.pending[me] = None;
            drop(g);
            resume_unwind(Box::new(SchedAbort));
        }
        if ex.current == Some(me) {
            ex.apply(me);
            return;
        }
        g = CV.wait(g).unwrap_or_else(|e| e.into_inner());
    }
}

fn choice_point(n: usize, tag: &'static str) -> usize {
    let me = TID.with(|t| t.get()).unwrap();
    let mut g = state();
    let ex = match g.as_mut() {
        Some(ex) => ex,
        None => return 0,
    };
    if ex.abort {
        drop(g);
        resume_unwind(Box::new(SchedAbort));
    }
    if ex.points.len() >= ex.step_cap {
        ex.capped = true;
        ex.abort = true;
        drop(g);
        CV.notify_all();
        resume_unwind(Box::new(SchedAbort));
    }
    let enabled: Vec<usize> = (0..n).collect();
    let idx = ex.next_choice(PointKind::Choice, me, &enabled);
    ex.points.push(Point {
        kind: PointKind::Choice,
        thread: me,
        what: format!("choose({tag})"),
        enabled,
        chosen: idx,
        running_enabled: false,
    });
    idx
}

pub fn acquire(addr: usize, m: Mode) {
    point(Op::Acquire(addr, m));
}

pub fn try_acquire(addr: usize, m: Mode) -> bool {
    point(Op::TryAcquire(addr, m));
    let me = TID.with(|t| t.get()).unwrap();
    let g = state();
    g.as_ref().map(|ex| ex.try_result[me]).unwrap_or(false)
}

pub fn release(addr: usize, m: Mode) {
    if let Some(me) = TID.with(|t| t.get()) {
        let mut g = state();
        if let Some(ex) = g.as_mut() {
            ex.release(me, addr, m);
        }
    }
}

pub fn downgrade(addr: usize) {
    if let Some(me) = TID.with(|t| t.get()) {
        let mut g = state();
        if let Some(ex) = g.as_mut() {
            if let Some(l) = ex.locks.get_mut(&addr) {
                if l.writer == Some(me) {
                    l.writer = None;
                    l.readers.push(me);
                }
            }
            for h in ex.held[me].iter_mut() {
                if h.0 == addr && h.1 == Mode::Excl {
                    h.1 = Mode::Shared;
                }
            }
        }
    }
}

/// Explicit scheduling point (operation boundaries of a thread's program).
pub fn yield_point(tag: &'static str) {
    if controlled_live() {
        point(Op::Yield(tag));
    }
}

pub fn current_thread() -> Option<usize> {
    TID.with(|t| t.get())
}

fn panic_message(p: &(dyn std::any::Any + Send)) -> String {
    if let Some(s) = p.downcast_ref::<&str>() {
        s.to_string()
    } else if let Some(s) = p.downcast_ref::<String>() {
        s.clone()
    } else {
        "non-string panic payload".to_string()
    }
}

fn thread_main(tid: usize, f: Thunk) {
    TID.with(|t| t.set(Some(tid)));
    // wait for the first turn (pending = Start, set by run())
    let go = {
        let mut g = state();
        loop {
            let ex = g.as_mut().unwrap();
            if ex.abort {
                ex.pending[tid] = None;
                break false;
            }
            if ex.current == Some(tid) {
                ex.apply(tid);
                break true;
            }
            g = CV.wait(g).unwrap_or_else(|e| e.into_inner());
        }
    };
    let res = if go { catch_unwind(AssertUnwindSafe(f)) } else { Ok(()) };
    {
        let mut g = state();
        let ex = g.as_mut().unwrap();
        if let Err(p) = res {
            if !p.is::<SchedAbort>() {
                let extra = LAST_PANIC_LOCATION.with(|l| l.borrow_mut().take()).unwrap_or_default();
                ex.panics.push((tid, format!("{}{}", panic_message(&*p), extra)));
            }
        }
        ex.finished[tid] = true;
        ex.pending[tid] = None;
        ex.decide(tid, false);
    }
    TID.with(|t| t.set(None));
    CV.notify_all();
}

thread_local! {
    pub static LAST_PANIC_LOCATION: RefCell<Option<String>> = const { RefCell::new(None) };
}

/// Quiet panic hook: remembers the location (per thread) instead of printing.
pub fn install_quiet_panic_hook() {
    std::panic::set_hook(Box::new(|info| {
        let loc = info.location().map(|l| format!(" @ {}:{}", l.file(), l.line())).unwrap_or_default();
        LAST_PANIC_LOCATION.with(|l| *l.borrow_mut() = Some(loc));
    }));
}

/// Message + location of a caught panic payload (for the single-threaded engines).
pub fn describe_panic(p: &(dyn std::any::Any + Send)) -> String {
    let extra = LAST_PANIC_LOCATION.with(|l| l.borrow_mut().take()).unwrap_or_default();
    format!("{}{}", panic_message(p), extra)
}

/// One controlled execution: replay `prefix`, then always take choice 0.
pub fn run(prefix: &[usize], expect: &[u64], threads: Vec<Thunk>, policy: RwPolicy, step_cap: usize) -> Outcome {
    let n = threads.len();
    {
        let mut g = state();
        if g.is_some() {
            machinery_failure("nested controlled execution");
        }
        let mut ex = Exec {
            n,
            finished: vec![false; n],
            pending: vec![Some(Op::Start); n],
            try_result: vec![false; n],
            held: vec![Vec::new(); n],
            current: None,
            locks: HashMap::new(),
            lock_ids: HashMap::new(),
            prefix: prefix.to_vec(),
            expect: expect.to_vec(),
            points: Vec::new(),
            policy,
            abort: false,
            done: false,
            deadlock: None,
            capped: false,
            diverged: None,
            panics: Vec::new(),
            step_cap,
            edges: Vec::new(),
        };
        ex.decide(usize::MAX, false);
        *g = Some(ex);
    }
    let handles: Vec<_> = threads
        .into_iter()
        .enumerate()
        .map(|(tid, f)| {
            std::thread::Builder::new()
                .name(format!("model-{tid}"))
                .stack_size(256 * 1024)
                .spawn(move || thread_main(tid, f))
                .expect("spawn model thread")
        })
        .collect();
    CV.notify_all();
    for h in handles {
        if h.join().is_err() {
            machinery_failure("model thread wrapper panicked");
        }
    }
    let ex = state().take().unwrap();
    if !ex.finished.iter().all(|f| *f) {
        machinery_failure("execution ended with unfinished threads");
    }
    Outcome {
        points: ex.points,
        deadlock: ex.deadlock,
        panics: ex.panics,
        capped: ex.capped,
        diverged: ex.diverged,
        lock_edges: ex.edges,
    }
}

#[derive(Clone, Debug, Default)]
pub struct ExploreStats {
    pub executions: u64,
    pub points_total: u64,
    pub max_points: usize,
    pub choice_points: u64,
    pub deadlocks: u64,
    pub max_preemptions: usize,
    /// the exploration stopped early because `max_execs` was reached
    pub exec_cap_hit: bool,
    /// replaying a recorded prefix met a different enabled set (exploration stopped)
    pub diverged: Option<String>,
}

/// Stateless depth-first exploration of every schedule with at most `bound` preemptions
/// (DESIGN §5.3). `mk` builds fresh thread bodies (after resetting the subject), `on_exec` sees
/// every finished execution; returning false stops the exploration.
pub fn explore(
    bound: usize,
    policy: RwPolicy,
    max_execs: u64,
    mk: &mut dyn FnMut() -> Vec<Thunk>,
    on_exec: &mut dyn FnMut(&Outcome) -> bool,
) -> ExploreStats {
    let mut st = ExploreStats::default();
    let debug = std::env::var("VSCHED_DEBUG").is_ok();
    let mut stack: Vec<(Vec<usize>, Vec<u64>, Vec<String>)> = vec![(Vec::new(), Vec::new(), Vec::new())];
    while let Some((prefix, expect, parent)) = stack.pop() {
        if st.executions >= max_execs {
            st.exec_cap_hit = true;
            break;
        }
        let threads = mk();
        let out = run(&prefix, &expect, threads, policy, 20_000);
        if let Some(d) = &out.diverged {
            if debug {
                eprintln!("prefix {prefix:?}\nparent:\n  {}\nreplay:\n  {}", parent.join("\n  "), out.render_schedule().join("\n  "));
            }
            // the caller decides: for most drivers this is a machinery failure, for thread-scope
            // drivers it is evidence that state leaked from one execution's threads into the next
            st.diverged = Some(d.clone());
            break;
        }
        if out.capped {
            machinery_failure("step cap hit inside one execution (livelock in the subject or harness?)");
        }
        st.executions += 1;
        st.points_total += out.points.len() as u64;
        st.max_points = st.max_points.max(out.points.len());
        st.choice_points += out.points.iter().filter(|p| p.enabled.len() > 1).count() as u64;
        if out.deadlock.is_some() {
            st.deadlocks += 1;
        }
        st.max_preemptions = st.max_preemptions.max(out.preemptions());
        // children: deviate at every point beyond the replayed prefix
        let fps: Vec<u64> = out.points.iter().map(|p| fingerprint(p.kind, p.thread, &p.enabled)).collect();
        let mut cost = out.points[..prefix.len().min(out.points.len())]
            .iter()
            .filter(|p| p.kind == PointKind::Sched && p.running_enabled && p.chosen != 0)
            .count();
        let mut children: Vec<(Vec<usize>, Vec<u64>, Vec<String>)> = Vec::new();
        let rendered = if debug { out.render_schedule() } else { Vec::new() };
        for i in prefix.len()..out.points.len() {
            let p = &out.points[i];
            let step = if p.kind == PointKind::Sched && p.running_enabled { 1 } else { 0 };
            if cost + step <= bound {
                for alt in 1..p.enabled.len() {
                    let mut np: Vec<usize> = out.points[..i].iter().map(|q| q.chosen).collect();
                    np.push(alt);
                    children.push((np, fps[..=i].to_vec(), rendered.clone()));
                }
            }
            // the default continuation took choice 0 here: never a preemption
            if p.kind == PointKind::Sched && p.running_enabled && p.chosen != 0 {
                cost += 1;
            }
        }
        // depth-first, simplest (earliest deviation) first
        children.reverse();
        stack.extend(children);
        if !on_exec(&out) {
            break;
        }
    }
    st
}
