#!/usr/bin/env python3
"""Generates harness/engine/src/corpus_gen.rs: the L1 corpus of decorated functions (DESIGN §5.2).
Deterministic; run by setup.sh and checked in."""
import itertools, os, sys

OUT = os.path.join(os.path.dirname(os.path.abspath(__file__)), "..", "harness", "engine", "src", "corpus_gen.rs")
POLS = [None, "fifo", "lru", "lfu", "arc", "random", "tlru"]
funcs = []   # dicts
code = []

def attr_list(d):
    parts = []
    if d.get("scope") == "thread":
        parts.append('scope = "thread"')
    if d.get("policy"):
        parts.append(f'policy = "{d["policy"]}"')
    if d.get("limit") is not None:
        parts.append(f'limit = {d["limit"]}')
    if d.get("ttl") is not None:
        parts.append(f'ttl = {d["ttl"]}')
    if d.get("mem") is not None:
        parts.append(f'max_memory = {d["mem"]}')
    if d.get("fw") is not None:
        parts.append(f'frequency_weight = {d["fw"]}')
    if d.get("name"):
        parts.append(f'name = "{d["name"]}"')
    for m in ("tags", "events", "dependencies"):
        if d.get(m):
            parts.append(f'{m} = [' + ", ".join(f'"{x}"' for x in d[m]) + ']')
    if d.get("cache_if"):
        parts.append(f'cache_if = {d["cache_if"]}')
    if d.get("inval_on"):
        parts.append(f'invalidate_on = {d["inval_on"]}')
    return ", ".join(parts)

def add(fid, family, flavour, policy=None, limit=None, ttl=None, mem=None, fw=None, result=None, cache_if=False,
        inval_on=False, versioned=False, tags=(), events=(), deps=(), name=None, gates=0, early=False, via=None, zero_arg=False):
    if family != "meta" and flavour != "thread" and not (tags or events or deps):
        # a declared tag registers the clear callback, which the harness uses to empty store *and* queue between histories
        tags = ("rst",)
    fn = f"{'a' if flavour == 'async' else ('t' if flavour == 'thread' else 'g')}{fid}"
    d = dict(policy=policy, limit=limit, ttl=ttl, mem=mem, fw=fw, name=name, tags=list(tags), events=list(events), dependencies=list(deps))
    if flavour == "thread":
        d["scope"] = "thread"
    rty = "String"
    if result == "short":
        rty = "Result<String, String>"
    elif result == "std":
        rty = "std::result::Result<String, String>"
    if cache_if:
        d["cache_if"] = f"ci_{fid}"
        code.append(f"fn ci_{fid}(key: &String, v: &{rty}) -> bool {{ cache_if_hook({fid}, key, format!(\"{{v:?}}\")) }}")
    if inval_on:
        d["inval_on"] = f"io_{fid}"
        code.append(f"fn io_{fid}(key: &String, v: &{rty}) -> bool {{ inval_on_hook({fid}, key, format!(\"{{v:?}}\")) }}")
    body = "body_res" if result else ("body_versioned" if versioned else "body")
    if gates:
        code.append(f"#[cache_async({attr_list(d)})]\npub async fn {fn}(k: u32) -> {rty} {{ gated_body({fid}, k, {gates}).await }}")
        spawn = f"Some(|k| Box::pin({fn}(k)))"
    else:
        spawn = "None"
    mac = "cache_async" if flavour == "async" else "cache"
    asy = "async " if flavour == "async" else ""
    if not gates and early:
        # bodies that leave through an explicit `return` / `?` for some arguments (key 1) and through the tail expression for others
        if result:
            code.append(f"#[{mac}({attr_list(d)})]\npub {asy}fn {fn}(k: u32) -> {rty} {{ let v = {body}({fid}, k)?; if k == 1 {{ return Ok(v); }} Ok(v) }}")
        else:
            code.append(f"#[{mac}({attr_list(d)})]\npub {asy}fn {fn}(k: u32) -> {rty} {{ if k == 1 {{ return {body}({fid}, k); }} {body}({fid}, k) }}")
    elif not gates and via == "macro_rules":
        # the whole return type arrives as a `ty` fragment of a declarative macro (an invisible group around it)
        code.append(f"macro_rules! mk_{fn} {{ ($ret:ty) => {{ #[{mac}({attr_list(d)})]\npub {asy}fn {fn}(k: u32) -> $ret {{ {body}({fid}, k) }} }} }}\nmk_{fn}!({rty});")
    elif not gates and via == "paren":
        code.append(f"#[{mac}({attr_list(d)})]\n#[allow(unused_parens)]\npub {asy}fn {fn}(k: u32) -> ({rty}) {{ {body}({fid}, k) }}")
    elif not gates and zero_arg:
        code.append(f"#[{mac}({attr_list(d)})]\npub {asy}fn {fn}() -> {rty} {{ {body}({fid}, 0) }}")
    elif not gates:
        code.append(f"#[{mac}({attr_list(d)})]\npub {asy}fn {fn}(k: u32) -> {rty} {{ {body}({fid}, k) }}")
    if zero_arg:
        wrap = f"block_on({fn}())" if flavour == "async" else f"{fn}()"
    else:
        wrap = f"block_on({fn}(k))" if flavour == "async" else f"{fn}(k)"
    ret = f"Ret::Res({wrap})" if result else f"Ret::Plain({wrap})"
    def opt(x, f=str):
        return "None" if x is None else f"Some({f(x)})"
    def sl(xs):
        return "&[" + ", ".join(f'"{x}"' for x in xs) + "]"
    pol = "None" if policy is None else f"Some(Pol::{policy.capitalize()})"
    funcs.append(
        f'    FnInfo {{ id: {fid}, name: "{name or fn}", fn_name: "{fn}", family: "{family}", flavour: Flavour::{flavour.capitalize()}, policy: {pol}, '
        f'limit: {opt(limit)}, ttl: {opt(ttl)}, mem: {opt(mem)}, fw: {opt(fw, lambda v: repr(float(v)))}, is_result: {str(bool(result)).lower()}, '
        f'has_cache_if: {str(cache_if).lower()}, has_inval_on: {str(inval_on).lower()}, versioned: {str(versioned).lower()}, '
        f'tags: {sl(tags)}, events: {sl(events)}, deps: {sl(deps)}, call: |{"_k" if zero_arg else "k"}| {ret}, spawn: {spawn}, gates: {gates}, zero_arg: {str(zero_arg).lower()} }},')

FLAVS = ["global", "thread", "async"]
fid = 1000
# --- core product
for fl in FLAVS:
    for pol in POLS:
        for lim in (None, 1, 2):
            for ttl in (None, 2):
                for mem in (None, 100):
                    add(fid, "core", fl, policy=pol, limit=lim, ttl=ttl, mem=mem)
                    fid += 1
# --- deeper queues: limit 3 (victim order needs at least two later entries behind a removed one)
fid = 1500
for fl in FLAVS:
    for pol in (None, "lru", "lfu", "arc"):
        add(fid, "core", fl, policy=pol, limit=3)
        fid += 1
# --- bodies with early exits, and tight memory budgets (70 bytes: two of the 33-byte entries fit, a third one evicts)
fid = 1600
for fl in FLAVS:
    for pol in (None, "lru"):
        add(fid, "core", fl, policy=pol, early=True)
        fid += 1
for fl in FLAVS:
    for pol in (None, "lru", "lfu", "arc", "tlru"):
        add(fid, "core", fl, policy=pol, mem=70)
        fid += 1
# functions without arguments: one key (the empty string), computed once
for fl in FLAVS:
    for pol in (None, "lru"):
        add(fid, "core", fl, policy=pol, zero_arg=True)
        fid += 1
# --- Result functions
fid = 2000
for fl in FLAVS:
    for sp in ("short", "std"):
        for pol in (None, "lru", "lfu"):
            for lim in (None, 1):
                for mem in (None, 100):
                    add(fid, "result", fl, policy=pol, limit=lim, mem=mem, result=sp)
                    fid += 1
for fl in FLAVS:
    add(fid, "result", fl, result="short", early=True)
    fid += 1
# a refresh that fails: invalidate_on calls the stored Ok stale and the body returns Err
for fl in FLAVS:
    for lim in (None, 2):
        add(fid, "result", fl, limit=lim, result="short", inval_on=True)
        fid += 1
# the return type reaches the attribute macro through a declarative macro's `ty` fragment, or in parentheses
for fl in FLAVS:
    for via in ("macro_rules", "paren"):
        for mem in (None, 100):
            add(fid, "result", fl, mem=mem, result="short", via=via)
            fid += 1
    add(fid, "result", fl, result="std", via="macro_rules")
    fid += 1
# a tight memory budget for Result functions (two entries fit, a third must evict; the Result store paths are separate code)
for fl in FLAVS:
    for pol in (None, "lru"):
        add(fid, "result", fl, policy=pol, mem=70, result="short")
        fid += 1
# an Ok that expires: Result together with ttl
for fl in FLAVS:
    add(fid, "result", fl, ttl=2, result="short")
    fid += 1
# ... under an entry limit: a refresh of an expired Ok that fails must leave no trace in the capacity accounting
for fl in FLAVS:
    for lim in (1, 2):
        for pol in (None, "lru"):
            add(fid, "result", fl, policy=pol, limit=lim, ttl=2, result="short")
            fid += 1
# --- cache_if
fid = 3000
for fl in FLAVS:
    for res in (None, "short"):
        for mem in (None, 100):
            for lim in (None, 1):
                add(fid, "cache_if", fl, limit=lim, mem=mem, result=res, cache_if=True)
                fid += 1
# both predicates on one function: a refresh goes through cache_if like any other result
for fl in FLAVS:
    for lim in (None, 2):
        add(fid, "cache_if", fl, limit=lim, cache_if=True, inval_on=True, versioned=True)
        fid += 1
# accepted results expire like any other; all three of Result, cache_if and invalidate_on on one function
for fl in FLAVS:
    add(fid, "cache_if", fl, ttl=2, cache_if=True)
    fid += 1
for fl in FLAVS:
    add(fid, "cache_if", fl, result="short", cache_if=True, inval_on=True)
    fid += 1
# --- invalidate_on (versioned bodies)
fid = 4000
for fl in FLAVS:
    for pol in (None, "lru"):
        for lim in (None, 1):
            for mem in (None, 100):
                add(fid, "inval_on", fl, policy=pol, limit=lim, mem=mem, inval_on=True, versioned=True)
                fid += 1
for fl in FLAVS:
    for pol in (None, "lru"):
        add(fid, "inval_on", fl, policy=pol, limit=None, ttl=2, inval_on=True, versioned=True)
        fid += 1
# every policy has its own store path: a refresh must replace the value under each of them
for fl in FLAVS:
    for pol in ("lfu", "arc", "tlru", "random"):
        add(fid, "inval_on", fl, policy=pol, limit=2, inval_on=True, versioned=True)
        fid += 1
# a refresh replaces in place: with room for two entries the neighbour must survive it
for fl in FLAVS:
    for pol in (None, "lru"):
        add(fid, "inval_on", fl, policy=pol, limit=2, inval_on=True, versioned=True)
        fid += 1
# --- gated async bodies (C20): 1-3 harness-controlled await points
fid = 7000
for pol in ("fifo", "lru", "lfu"):
    for lim in (None, 1):
        for ttl in (None, 2):
            for ng in (1, 2, 3):
                add(fid, "gate", "async", policy=pol, limit=lim, ttl=ttl, tags=("t",), gates=ng)
                fid += 1
# a resumed store must be a replacement when somebody else stored the key meanwhile: needs room for an unrelated entry
for pol in ("fifo", "lru"):
    for ng in (1, 2):
        add(fid, "gate", "async", policy=pol, limit=2, tags=("t",), gates=ng)
        fid += 1
# a suspended or dropped call whose entry invalidate_on called stale must leave that entry alone
for pol in ("fifo", "lru"):
    for lim in (None, 2):
        add(fid, "gate", "async", policy=pol, limit=lim, tags=("t",), gates=1, inval_on=True)
        fid += 1
# --- metadata corpus: every assignment of tags/events/dependencies ⊆ {x, y}
fid = 5000
SUBS = [(), ("x",), ("y",), ("x", "y")]
for fl in ("global", "async"):
    for i, (tg, ev, dp) in enumerate(itertools.product(SUBS, SUBS, SUBS)):
        nm = f"nm{fid}" if i % 4 == 1 else None
        add(fid, "meta", fl, limit=2, tags=tg, events=ev, deps=dp, name=nm)
        fid += 1
# dependencies are usually the names of other caches: one that lists its own name, one that depends on a
# neighbour's function name, one that is only depended upon
fid = 5300
add(fid, "selfdep", "global", limit=2, deps=("sd_own",), name="sd_own"); fid += 1
add(fid, "selfdep", "async", limit=2, deps=(f"a{fid}", "x")); fid += 1
add(fid, "selfdep", "global", limit=2, deps=(f"a{fid - 1}",), tags=("x",)); fid += 1
add(fid, "selfdep", "async", limit=2, deps=("sd_own",), name="sd_other"); fid += 1
add(fid, "selfdep", "global", limit=2, events=(f"g{fid}",), tags=(f"g{fid}",)); fid += 1
# --- drivers for the threaded engines: small limits, ttl, memory, all with group metadata
fid = 6000
for fl in ("global", "async"):
    for (pol, lim, ttl, mem) in [("lru", 1, None, None), ("fifo", 1, 2, None), ("fifo", 2, None, 100), ("lfu", 1, None, None),
                                 ("random", 1, None, None), ("arc", 1, None, None), ("tlru", 1, 2, None), ("fifo", None, None, None),
                                 ("lru", 2, None, None), ("fifo", 1, None, None)]:
        add(fid, "conc", fl, policy=pol, limit=lim, ttl=ttl, mem=mem, tags=("t",), events=("e",), deps=("d",))
        fid += 1
# thread-scope drivers (C14)
for (pol, lim) in [(None, None), ("fifo", 1), ("lru", 1), ("lfu", 1), ("arc", 2), ("random", 1), ("tlru", 2), ("lru", 2)]:
    add(fid, "conc", "thread", policy=pol, limit=lim)
    fid += 1

# unlimited functions for every policy (C03 concurrent clause: the hit path differs per policy)
for fl in ("global", "async"):
    for pol in ("lru", "lfu", "arc", "random", "tlru"):
        add(fid, "conc", fl, policy=pol, tags=("t",), events=("e",))
        fid += 1
# thread scope together with group metadata (documented as ignored for thread scope)
for (pol, lim, tg, ev, dp) in [("fifo", 2, ("t",), (), ()), ("lru", None, (), ("e",), ()), (None, 1, (), (), ("d",)), ("lfu", 2, ("t",), ("e",), ("d",))]:
    add(fid, "conc", "thread", policy=pol, limit=lim, tags=tg, events=ev, deps=dp)
    fid += 1
# memory is the only bound: two of the 33-byte entries fit, a third must evict (appended last: earlier ids stay put)
for fl in ("global", "async"):
    for pol in ("fifo", "lru", "lfu"):
        add(fid, "conc", fl, policy=pol, mem=70, tags=("t",), events=("e",), deps=("d",))
        fid += 1

with open(OUT, "w") as f:
    f.write("// @generated by /verif/gen/gen_corpus.py — do not edit\n")
    f.write("#![allow(clippy::all, non_snake_case, dead_code)]\n")
    f.write("use crate::common::{Flavour, Pol};\nuse crate::l1::*;\nuse cachelito_async_macros::cache_async;\nuse cachelito_macros::cache;\n\n")
    f.write("\n".join(code))
    f.write("\n\npub static FUNCS: &[FnInfo] = &[\n" + "\n".join(funcs) + "\n];\n")
print(f"generated {len(funcs)} functions")
