#!/usr/bin/env python3
"""Generates harness/engine/src/shapes_gen.rs: signature shapes for C02 (distinct argument
tuples never share an entry). Every shape exists for #[cache] (to_cache_key) and
#[cache_async] (format!("{:?}")); arguments range over small adversarial domains."""
import os
OUT = os.path.join(os.path.dirname(os.path.abspath(__file__)), "..", "harness", "engine", "src", "shapes_gen.rs")

# type -> (parameter type, domain fn name, how to pass a domain element `x` (a reference to the owned value))
T = {
    "u8": ("u8", "d_u8", "*{x}"),
    "i32": ("i32", "d_i32", "*{x}"),
    "u64": ("u64", "d_u64", "*{x}"),
    "i128": ("i128", "d_i128", "*{x}"),
    "f64": ("f64", "d_f64", "*{x}"),
    "bool": ("bool", "d_bool", "*{x}"),
    "char": ("char", "d_char", "*{x}"),
    "String": ("String", "d_string", "{x}.clone()"),
    "&str": ("&str", "d_string", "&{x}[..]"),
    "Option<u8>": ("Option<u8>", "d_opt_u8", "*{x}"),
    "Option<String>": ("Option<String>", "d_opt_string", "{x}.clone()"),
    "Vec<u8>": ("Vec<u8>", "d_vec_u8", "{x}.clone()"),
    "&[u8]": ("&[u8]", "d_vec_u8", "&{x}[..]"),
    "Vec<String>": ("Vec<String>", "d_vec_string", "{x}.clone()"),
    "(u8,u8)": ("(u8, u8)", "d_pair", "*{x}"),
    "(String,u8)": ("(String, u8)", "d_spair", "{x}.clone()"),
    "(u8,(u8,u8))": ("(u8, (u8, u8))", "d_nested", "*{x}"),
    "Option<Vec<u8>>": ("Option<Vec<u8>>", "d_opt_vec", "{x}.clone()"),
    "Vec<Option<u8>>": ("Vec<Option<u8>>", "d_vec_opt", "{x}.clone()"),
    "P": ("P", "d_p", "{x}.clone()"),
    "E": ("E", "d_e", "{x}.clone()"),
    "W": ("W", "d_w", "{x}.clone()"),
    "small": ("u8", "d_small", "*{x}"),
    "i8": ("i8", "d_i8", "*{x}"),
    "u16": ("u16", "d_u16", "*{x}"),
    "u32": ("u32", "d_u32", "*{x}"),
    "i64": ("i64", "d_i64", "*{x}"),
    "u128": ("u128", "d_u128", "*{x}"),
    "usize": ("usize", "d_usize", "*{x}"),
    "isize": ("isize", "d_isize", "*{x}"),
    "f32": ("f32", "d_f32", "*{x}"),
    "(u8,u8,u8)": ("(u8, u8, u8)", "d_triple", "*{x}"),
    "(u8,u8,u8,u8,u8)": ("(u8, u8, u8, u8, u8)", "d_quint", "*{x}"),
    "Vec<Vec<u8>>": ("Vec<Vec<u8>>", "d_vec_vec", "{x}.clone()"),
    "Option<Option<u8>>": ("Option<Option<u8>>", "d_opt_opt", "*{x}"),
    "Vec<(u8,u8)>": ("Vec<(u8, u8)>", "d_vec_pair", "{x}.clone()"),
    "Option<(String,u8)>": ("Option<(String, u8)>", "d_opt_spair", "{x}.clone()"),
    "&[String]": ("&[String]", "d_vec_string", "&{x}[..]"),
    "(char,bool)": ("(char, bool)", "d_cb", "*{x}"),
    "(String,)": ("(String,)", "d_single", "{x}.clone()"),
}

SHAPES = [
    ("u8",), ("i32", "i32"), ("u8", "u8", "u8"), ("u64", "small", "small", "small"), ("small", "small", "small", "small", "small"),
    ("String",), ("String", "String"), ("&str", "&str"), ("String", "u8"), ("u8", "String", "u8"), ("char", "char"), ("char", "String"),
    ("f64", "f64"), ("bool", "u8"), ("i128", "i128"),
    ("Option<u8>", "Option<u8>"), ("Option<String>", "String"), ("Vec<u8>", "Vec<u8>"), ("&[u8]", "u8"), ("Vec<String>", "String"),
    ("(u8,u8)", "u8"), ("(String,u8)", "String"), ("(u8,(u8,u8))", "u8"), ("Option<Vec<u8>>", "u8"), ("Vec<Option<u8>>", "u8"),
    ("P", "u8"), ("E", "E"), ("W", "u8"), ("P", "String"),
    ("i8", "i8"), ("u16", "u32"), ("i64", "u128"), ("usize", "isize"), ("f32", "f32"), ("i8", "u16", "i64"),
    ("(u8,u8,u8)", "u8"), ("(u8,u8,u8,u8,u8)",), ("Vec<Vec<u8>>", "u8"), ("Option<Option<u8>>", "Option<u8>"), ("Vec<(u8,u8)>", "u8"),
    ("Option<(String,u8)>", "String"), ("&[String]", "&str"), ("(char,bool)", "char"), ("(String,)", "String"),
]
T["&u64"] = ("&u64", "d_u64", "{x}")
# parameters written as patterns (destructured tuple / tuple struct, reference pattern): (declaration, type key, how the
# body rebuilds a reference to the argument for the value it returns)
PSHAPES = [
    (("(p0, p1): (u8, u8)", "(u8,u8)", "&(p0, p1)"), ("a1: u8", "u8", "&a1")),
    (("a0: u8", "u8", "&a0"), ("(p0, p1): (u8, u8)", "(u8,u8)", "&(p0, p1)")),
    (("&n: &u64", "&u64", "&&n"), ("a1: u8", "u8", "&a1")),
    (("W(w0, w1): W", "W", "&W(w0, w1)"), ("a1: u8", "u8", "&a1")),
    (("(p0, p1): (u8, u8)", "(u8,u8)", "&(p0, p1)"),),
    (("(p0, (p1, p2)): (u8, (u8, u8))", "(u8,(u8,u8))", "&(p0, (p1, p2))"), ("&n: &u64", "&u64", "&&n")),
]
# methods: receiver kind + further args
METHODS = [("&self", ()), ("&self", ("u8",)), ("&self", ("u8", "u8")), ("&self", ("String",)), ("self", ("u8",)), ("&mut self", ("u8",)), ("&self", ("&str", "u8"))]

out = []
entries = []
sid = 0
for asy in (False, True):
    mac = "cache_async" if asy else "cache"
    a = "async " if asy else ""
    w = (lambda c: f"block_on({c})") if asy else (lambda c: c)
    for sh in SHAPES:
        sid += 1
        name = f"{'ah' if asy else 'sh'}{sid}"
        params = ", ".join(f"a{i}: {T[t][0]}" for i, t in enumerate(sh))
        refs = ", ".join(f"&a{i}" for i in range(len(sh)))
        out.append(f"#[{mac}]\npub {a}fn {name}({params}) -> String {{ exec(); format!(\"{{:?}}\", ({refs},)) }}")
        # driver
        loops = ""
        for i, t in enumerate(sh):
            loops += f"    let dom{i} = {T[t][1]}(ctx.thorough);\n"
        body = ""
        ind = "    "
        for i, t in enumerate(sh):
            body += f"{ind}for x{i} in dom{i}.iter() {{\n"
            ind += "    "
        args = ", ".join(T[t][2].format(x=f"x{i}") for i, t in enumerate(sh))
        encargs = ", ".join(("&" + T[t][2].format(x=f"x{i}")) for i, t in enumerate(sh))
        naive = " + &".join(f"naive(&format!(\"{{:?}}\", {T[t][2].format(x=f'x{i}')}))" for i, t in enumerate(sh))
        body += f"{ind}let want = format!(\"{{:?}}\", ({encargs},));\n"
        body += f"{ind}let got = {w(f'{name}({args})')};\n"
        body += f"{ind}ctx.observe(&want, &got, String::new() + &{naive});\n"
        for i in range(len(sh)):
            ind = ind[:-4]
            body += f"{ind}}}\n"
        out.append(f"fn run_{name}(ctx: &mut ShapeCtx) {{\n{loops}{body}}}")
        sig = "(" + ", ".join(sh) + ")"
        entries.append(f'    Shape {{ name: "{name}", signature: "{sig}", is_async: {str(asy).lower()}, is_method: false, run: run_{name} }},')
    for ps in PSHAPES:
        sid += 1
        name = f"{'ap' if asy else 'sp'}{sid}"
        params = ", ".join(d for (d, _, _) in ps)
        refs = ", ".join(r for (_, _, r) in ps)
        out.append(f"#[{mac}]\npub {a}fn {name}({params}) -> String {{ exec(); format!(\"{{:?}}\", ({refs},)) }}")
        loops = ""
        for i, (_, t, _) in enumerate(ps):
            loops += f"    let dom{i} = {T[t][1]}(ctx.thorough);\n"
        body = ""
        ind = "    "
        for i, _ in enumerate(ps):
            body += f"{ind}for x{i} in dom{i}.iter() {{\n"
            ind += "    "
        args = ", ".join(T[t][2].format(x=f"x{i}") for i, (_, t, _) in enumerate(ps))
        encargs = ", ".join(("&" + T[t][2].format(x=f"x{i}")) for i, (_, t, _) in enumerate(ps))
        naive = " + &".join(f"naive(&format!(\"{{:?}}\", {T[t][2].format(x=f'x{i}')}))" for i, (_, t, _) in enumerate(ps))
        body += f"{ind}let want = format!(\"{{:?}}\", ({encargs},));\n"
        body += f"{ind}let got = {w(f'{name}({args})')};\n"
        body += f"{ind}ctx.observe(&want, &got, String::new() + &{naive});\n"
        for i in range(len(ps)):
            ind = ind[:-4]
            body += f"{ind}}}\n"
        out.append(f"fn run_{name}(ctx: &mut ShapeCtx) {{\n{loops}{body}}}")
        sig = "(" + ", ".join(d for (d, _, _) in ps) + ")"
        entries.append(f'    Shape {{ name: "{name}", signature: "{sig}", is_async: {str(asy).lower()}, is_method: false, run: run_{name} }},')
    for (recv, rest) in METHODS:
        sid += 1
        name = f"{'am' if asy else 'sm'}{sid}"
        params = ", ".join([recv] + [f"a{i}: {T[t][0]}" for i, t in enumerate(rest)])
        refs = ", ".join(["&*self"] + [f"&a{i}" for i in range(len(rest))]) if recv != "self" else ", ".join(["&self"] + [f"&a{i}" for i in range(len(rest))])
        out.append(f"impl R {{\n    #[{mac}]\n    pub {a}fn {name}({params}) -> String {{ exec(); format!(\"{{:?}}\", ({refs},)) }}\n}}")
        loops = "    let domr = d_r(ctx.thorough);\n"
        for i, t in enumerate(rest):
            loops += f"    let dom{i} = {T[t][1]}(ctx.thorough);\n"
        body = "    for r in domr.iter() {\n"
        ind = "        "
        for i, t in enumerate(rest):
            body += f"{ind}for x{i} in dom{i}.iter() {{\n"
            ind += "    "
        args = ", ".join(T[t][2].format(x=f"x{i}") for i, t in enumerate(rest))
        encargs = ", ".join(["r"] + [("&" + T[t][2].format(x=f"x{i}")) for i, t in enumerate(rest)])
        naive = " + &".join(["naive(&format!(\"{:?}\", r))"] + [f"naive(&format!(\"{{:?}}\", {T[t][2].format(x=f'x{i}')}))" for i, t in enumerate(rest)])
        body += f"{ind}let want = format!(\"{{:?}}\", ({encargs},));\n"
        if recv == "&mut self":
            body += f"{ind}let mut rr = r.clone();\n{ind}let got = {w(f'rr.{name}({args})')};\n"
        elif recv == "self":
            body += f"{ind}let got = {w(f'r.clone().{name}({args})')};\n"
        else:
            body += f"{ind}let got = {w(f'r.{name}({args})')};\n"
        body += f"{ind}ctx.observe(&want, &got, String::new() + &{naive});\n"
        for i in range(len(rest)):
            ind = ind[:-4]
            body += f"{ind}}}\n"
        body += "    }\n"
        out.append(f"fn run_{name}(ctx: &mut ShapeCtx) {{\n{loops}{body}}}")
        sig = "(" + ", ".join((recv,) + rest) + ")"
        entries.append(f'    Shape {{ name: "{name}", signature: "{sig}", is_async: {str(asy).lower()}, is_method: true, run: run_{name} }},')

with open(OUT, "w") as f:
    f.write("// @generated by /verif/gen/gen_shapes.py — do not edit\n#![allow(clippy::all, dead_code, unused_mut)]\n")
    f.write("use crate::l1::block_on;\nuse crate::shapes::*;\nuse cachelito_async_macros::cache_async;\nuse cachelito_macros::cache;\n\n")
    f.write("\n\n".join(out))
    f.write("\n\npub static SHAPES: &[Shape] = &[\n" + "\n".join(entries) + "\n];\n")
print("shapes:", len(entries))
