#!/usr/bin/env python3
"""Prints the prompt for a mutation sub-agent: only the property text and a scratch worktree."""
import json, sys
pid, wt = sys.argv[1], sys.argv[2]
extra = sys.argv[3] if len(sys.argv) > 3 else ""
p = next(json.loads(l) for l in open('/verif/properties.jsonl') if json.loads(l)['id'] == pid)
print(f"""You are helping to evaluate a verification effort for the Rust crate `cachelito` (a memoization library: proc macros #[cache] / #[cache_async] plus sync, thread-local and async caches with FIFO/LRU/LFU/ARC/Random/TLRU eviction, TTL, memory limits, tag/event invalidation).

Your own scratch git worktree of the repository is at {wt}. Work ONLY inside that directory (and /tmp/{pid}-demo for scratch files if you need it). Do NOT read or touch /repo, /verif or any other worktree under /tmp. There is no network: always pass --offline to cargo. Use CARGO_TARGET_DIR={wt}/target (the default inside the worktree) so builds do not interfere with anybody else.

Here is a semantic property of cachelito that should always hold:

  Title: {p['title']}
  Statement: {p['statement']}
  Quantifier: {p['quantifier']['text']}

TASK: produce ONE small, realistic change (a "seeded bug", the kind of slip a maintainer could plausibly make in a refactor or a "small optimisation") to the library sources in your worktree that BREAKS this property, while
  (a) the workspace still compiles, and
  (b) the ENTIRE existing test suite still passes: run `cargo test --workspace --offline` in the worktree and check that nothing fails (a few tests sleep for seconds; the run takes 1-2 minutes). If a ttl=1 test flakes once, rerun it; a real failure disqualifies the change.
The bug must need something SPECIFIC to manifest: a particular multi-step sequence of operations, a particular configuration (policy / scope / limit / ttl / max_memory combination), an unusual input, a particular thread interleaving, or two cooperating code sites that each look fine alone. Do NOT produce a change that ordinary use would expose at once (e.g. "cache never stores anything"), and do not touch tests, docs, Cargo manifests or the `verif_hooks` module / `verif-hooks` feature. Keep the diff small (ideally < 15 changed lines) and in library source files only (cachelito-core/src, cachelito-macros/src, cachelito-async-macros/src, cachelito-macro-utils/src). {extra}

ALSO produce a demonstration: a new integration test file (put it under {wt}/tests/ for sync or {wt}/cachelito-async/tests/ for async code, or a unit test inside cachelito-core if it needs internals) that FAILS with your change and PASSES without it (verify both: `git stash` / `git stash pop` or apply/revert the diff). For an interleaving-dependent bug, a deterministic demonstration is best (e.g. drive the two halves by hand, or use barriers/sleeps so it fails reliably); if it can only be shown probabilistically, loop enough times to fail reliably.

When done, leave in the worktree:
  - {wt}/SEEDED.diff      : `git diff` of the library change ONLY (not the demonstration test)
  - {wt}/SEEDED_DEMO.md   : which file the demonstration is, the exact command to run it, what it needs in order to manifest (sequence / configuration / interleaving), and the output you saw with and without the change
  - the demonstration test file itself in place (uncommitted is fine)
and make sure the worktree is left WITH the change applied.

Reply with a short summary: the idea of the bug, files touched, what is needed to trigger it, and confirmation that (a), (b) and the demonstration hold.""")
