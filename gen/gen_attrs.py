#!/usr/bin/env python3
"""Generates harness/engine/src/attrs_gen.rs (C19): decorated functions covering every attribute
value in isolation and in pairs, each with the configuration the attributes are *intended* to
mean (an independent table: KB/MB/GB are powers of 1024), to be compared call for call with a
directly constructed core cache."""
import os
OUT = os.path.join(os.path.dirname(os.path.abspath(__file__)), "..", "harness", "engine", "src", "attrs_gen.rs")
MEM = {'"1KB"': 1024, '"2KB"': 2048, '"1MB"': 1024**2, '"2MB"': 2 * 1024**2, '"1GB"': 1024**3, '"1kb"': 1024, '"1Mb"': 1024**2,
       '"512"': 512, '2048': 2048, '"64"': 64, '"3gb"': 3 * 1024**3}
POLS = ["fifo", "lru", "lfu", "arc", "random", "tlru"]
code, entries = [], []
fid = [8000]

def add(flavour, attrs, exp, sig="k", variant="", ret="Fake", cache_if=False, inval_on=False):
    """attrs: list of attribute strings; exp: dict(policy, limit, ttl, mem, fw, name, tags, events, deps)"""
    i = fid[0]; fid[0] += 1
    fn = f"{'aa' if flavour == 'async' else ('ta' if flavour == 'thread' else 'ga')}{i}"
    al = list(attrs)
    if flavour == "thread":
        al.insert(0, 'scope = "thread"')
    tags = exp.get("tags", [])
    if flavour != "thread" and not (tags or exp.get("events") or exp.get("deps")):
        al.append('tags = ["rst"]'); tags = ["rst"]
    if cache_if:
        al.append(f"cache_if = ci_{i}")
        rt = "Fake" if ret == "Fake" else "Result<Fake, String>"
        if cache_if == "even":
            # a predicate that takes effect: only results for even keys are cached
            val = "v.k % 2 == 0" if ret == "Fake" else "v.as_ref().map_or(false, |f| f.k % 2 == 0)"
            code.append(f"fn ci_{i}(_k: &String, v: &{rt}) -> bool {{ {val} }}")
        else:
            code.append(f"fn ci_{i}(_k: &String, _v: &{rt}) -> bool {{ true }}")
    if inval_on:
        al.append(f"invalidate_on = io_{i}")
        rt = "Fake" if ret == "Fake" else "Result<Fake, String>"
        if inval_on == "odd":
            # a check that takes effect: cached results for odd keys are always stale
            val = "v.k % 2 == 1" if ret == "Fake" else "v.as_ref().map_or(false, |f| f.k % 2 == 1)"
            code.append(f"fn io_{i}(_k: &String, v: &{rt}) -> bool {{ {val} }}")
        else:
            code.append(f"fn io_{i}(_k: &String, _v: &{rt}) -> bool {{ false }}")
    mac = "cache_async" if flavour == "async" else "cache"
    asy = "async " if flavour == "async" else ""
    mem = exp.get("mem")
    unit = mem if mem else 0
    body = f"attr_body({i}, KEY, {unit})"
    wrap = (lambda c: f"block_on({c})") if flavour == "async" else (lambda c: c)
    rty = "Fake" if ret == "Fake" else "Result<Fake, String>"
    okw = (lambda b: b) if ret == "Fake" else (lambda b: f"Ok({b})")
    if sig == "k":
        code.append(f"#[{mac}({', '.join(al)})]\npub {asy}fn {fn}(k: u32) -> {rty} {{ {okw(body.replace('KEY', 'k'))} }}")
        call, key = f"{fn}(k)", 'format!("{k}")'
    elif sig == "0":
        code.append(f"#[{mac}({', '.join(al)})]\npub {asy}fn {fn}() -> {rty} {{ {okw(body.replace('KEY', '1'))} }}")
        call, key = f"{fn}()", 'String::new()'
    elif sig == "2":
        code.append(f"#[{mac}({', '.join(al)})]\npub {asy}fn {fn}(k: u32, b: u32) -> {rty} {{ let _ = b; {okw(body.replace('KEY', 'k'))} }}")
        call, key = f"{fn}(k, 7)", 'format!("{k}|7")'
    elif sig == "3":
        code.append(f"#[{mac}({', '.join(al)})]\npub {asy}fn {fn}(a: bool, k: u32, s: &str) -> {rty} {{ let _ = (a, s); {okw(body.replace('KEY', 'k'))} }}")
        call, key = f'{fn}(true, k, "x")', 'format!("true|{k}|\\"x\\"")'
    elif sig == "4":
        code.append(f"#[{mac}({', '.join(al)})]\npub {asy}fn {fn}(a: u8, b: u8, k: u32, d: u8) -> {rty} {{ let _ = (a, b, d); {okw(body.replace('KEY', 'k'))} }}")
        call, key = f"{fn}(1, 2, k, 3)", 'format!("1|2|{k}|3")'
    elif sig == "m":
        code.append(f"impl AR {{\n    #[{mac}({', '.join(al)})]\n    pub {asy}fn {fn}(&self, k: u32) -> {rty} {{ {okw(body.replace('KEY', 'k'))} }}\n}}")
        call, key = f"AR {{ id: 5 }}.{fn}(k)", 'format!("AR {{ id: 5 }}|{k}")'
    callx = wrap(call)
    if ret != "Fake":
        callx = f"{callx}.unwrap()"
    def opt(x, f=str):
        return "None" if x is None else f"Some({f(x)})"
    def sl(xs):
        return "&[" + ", ".join(f'"{x}"' for x in xs) + "]"
    pol = exp.get("policy") or "fifo"
    attrs_lit = 'r#"' + ", ".join(al) + '"#'
    entries.append(
        f'    AttrFn {{ id: {i}, fn_name: "{fn}", reg_name: "{exp.get("name") or fn}", flavour: Flavour::{flavour.capitalize()}, attrs: {attrs_lit}, '
        f'policy: Pol::{pol.capitalize()}, limit: {opt(exp.get("limit"))}, ttl: {opt(exp.get("ttl"))}, mem: {opt(mem)}, fw: {opt(exp.get("fw"), lambda v: repr(float(v)))}, '
        f'tags: {sl(tags)}, events: {sl(exp.get("events", []))}, deps: {sl(exp.get("deps", []))}, is_result: {str(ret != "Fake").lower()}, zero_arg: {str(sig == "0").lower()}, deep: {str(bool(exp.get("fw"))).lower()}, '
        f'accept_even_only: {str(cache_if == "even").lower()}, stale_when_odd: {str(inval_on == "odd").lower()}, '
        f'call: |k| {callx}, key: |k| {key} }},')

for fl in ("global", "thread", "async"):
    # ---- every value in isolation
    for n in (1, 2, 3):
        add(fl, [f"limit = {n}"], dict(limit=n))
    for t in (1, 2, 3):
        add(fl, [f"ttl = {t}", "limit = 2"], dict(ttl=t, limit=2))
    # ttl = 0 is a value like any other: every entry is expired at once
    add(fl, ["ttl = 0", "limit = 2"], dict(ttl=0, limit=2))
    add(fl, ["ttl = 0"], dict(ttl=0))
    for p in POLS:
        add(fl, [f'policy = "{p}"', "limit = 2"], dict(policy=p, limit=2))
    for m, b in MEM.items():
        add(fl, [f"max_memory = {m}"], dict(mem=b))
    for (txt, val) in (("0.3", 0.3), ("3.0", 3.0), ("2", 2.0), ("1.5", 1.5)):
        add(fl, ['policy = "tlru"', "limit = 2", f"frequency_weight = {txt}"], dict(policy="tlru", limit=2, fw=val))
    add(fl, ['policy = "tlru"', "limit = 2", "ttl = 2", "frequency_weight = 0.3"], dict(policy="tlru", limit=2, ttl=2, fw=0.3))
    add(fl, [f'name = "custom_{fid[0]}"', "limit = 2"], dict(name=f"custom_{fid[0]}", limit=2))
    add(fl, [f'tags = ["ta{fid[0]}"]', "limit = 2"], dict(tags=[f"ta{fid[0]}"], limit=2))
    add(fl, [f'events = ["ev{fid[0]}"]', "limit = 2"], dict(events=[f"ev{fid[0]}"], limit=2))
    add(fl, [f'dependencies = ["dp{fid[0]}"]', "limit = 2"], dict(deps=[f"dp{fid[0]}"], limit=2))
    add(fl, ["limit = 2"], dict(limit=2), cache_if=True)
    add(fl, ["limit = 2"], dict(limit=2), inval_on=True)
    # predicates whose verdict depends on the result: they must take effect as written, for plain and Result returns
    for ret in ("Fake", "Result"):
        add(fl, ["limit = 2"], dict(limit=2), cache_if="even", ret=ret)
        add(fl, ["limit = 2"], dict(limit=2), inval_on="odd", ret=ret)
        add(fl, ["limit = 3"], dict(limit=3), cache_if="even", inval_on="odd", ret=ret)
        add(fl, ['max_memory = "1KB"'], dict(mem=1024), cache_if="even", ret=ret)
    # ---- pairs with the unit strings
    for p in POLS:
        for m in ('"1KB"', '"1MB"'):
            add(fl, [f'policy = "{p}"', f"max_memory = {m}"], dict(policy=p, mem=MEM[m]))
    for n in (1, 2):
        for m in ('"1KB"', '"2MB"', '"1GB"'):
            add(fl, [f"limit = {n}", f"max_memory = {m}"], dict(limit=n, mem=MEM[m]))
    for p in ("lru", "tlru"):
        add(fl, [f'policy = "{p}"', "ttl = 2", 'max_memory = "1KB"'], dict(policy=p, ttl=2, mem=1024))
    add(fl, [f'name = "custom_{fid[0]}"', 'max_memory = "1KB"'], dict(name=f"custom_{fid[0]}", mem=1024))
    add(fl, [f'name = "custom_{fid[0]}"', f'tags = ["tb{fid[0]}"]', "limit = 1"], dict(name=f"custom_{fid[0]}", tags=[f"tb{fid[0]}"], limit=1))
    add(fl, [f'tags = ["tc{fid[0]}"]', f'events = ["ec{fid[0]}"]', f'dependencies = ["dc{fid[0]}"]', "limit = 2"],
        dict(tags=[f"tc{fid[0]}"], events=[f"ec{fid[0]}"], deps=[f"dc{fid[0]}"], limit=2))
    add(fl, ['max_memory = "1KB"'], dict(mem=1024), cache_if=True)
    add(fl, ["limit = 1"], dict(limit=1), cache_if=True)
    add(fl, ['max_memory = "1KB"'], dict(mem=1024), inval_on=True)
    add(fl, ["limit = 1", 'policy = "lru"'], dict(limit=1, policy="lru"), inval_on=True)
    add(fl, ['policy = "tlru"', 'max_memory = "1KB"', "frequency_weight = 3.0"], dict(policy="tlru", mem=1024, fw=3.0))
    # ---- a few triples and everything at once
    add(fl, ['policy = "lru"', "limit = 2", "ttl = 2", 'max_memory = "1KB"'], dict(policy="lru", limit=2, ttl=2, mem=1024))
    add(fl, ['policy = "lfu"', "limit = 1", 'max_memory = "2KB"'], dict(policy="lfu", limit=1, mem=2048))
    add(fl, ['policy = "tlru"', "limit = 2", "ttl = 3", 'max_memory = "1KB"', "frequency_weight = 1.5", f'name = "custom_{fid[0]}"', f'tags = ["tz{fid[0]}"]', f'events = ["ez{fid[0]}"]', f'dependencies = ["dz{fid[0]}"]'],
        dict(policy="tlru", limit=2, ttl=3, mem=1024, fw=1.5, name=f"custom_{fid[0]}", tags=[f"tz{fid[0]}"], events=[f"ez{fid[0]}"], deps=[f"dz{fid[0]}"]), cache_if=True, inval_on=True)
    add(fl, ["limit = 1000"], dict(limit=1000))
    add(fl, ["ttl = 100000", "limit = 2"], dict(ttl=100000, limit=2))
    if fl == "global":
        add(fl, ['scope = "global"', "limit = 2", 'policy = "lru"'], dict(limit=2, policy="lru"))
        add(fl, ['scope = "global"', 'max_memory = "1KB"'], dict(mem=1024))
    # ---- attribute order must not matter
    add(fl, ["frequency_weight = 3.0", "limit = 2", 'policy = "tlru"'], dict(policy="tlru", limit=2, fw=3.0))
    add(fl, ["frequency_weight = 0.3", 'policy = "tlru"', "limit = 2"], dict(policy="tlru", limit=2, fw=0.3))
    add(fl, ["limit = 2", 'policy = "lru"'], dict(policy="lru", limit=2))
    add(fl, ["ttl = 2", "limit = 1", 'policy = "lfu"'], dict(policy="lfu", limit=1, ttl=2))
    add(fl, ['max_memory = "1KB"', 'policy = "arc"', "limit = 2"], dict(policy="arc", limit=2, mem=1024))
    add(fl, ["limit = 1", f'name = "custom_{fid[0]}"'], dict(name=f"custom_{fid[0]}", limit=1))
    # ---- signature shapes and return types
    for sig in ("0", "2", "3", "4", "m"):
        add(fl, ["limit = 2", 'policy = "lru"'], dict(limit=2, policy="lru"), sig=sig)
    add(fl, ["limit = 2"], dict(limit=2), ret="Result")
    add(fl, ['max_memory = "1KB"', 'policy = "lru"'], dict(mem=1024, policy="lru"), ret="Result")
    add(fl, ["limit = 1"], dict(limit=1), ret="Result", sig="2")

with open(OUT, "w") as f:
    f.write("// @generated by /verif/gen/gen_attrs.py — do not edit\n#![allow(clippy::all, dead_code, unused_variables)]\n")
    f.write("use crate::cfgx::*;\nuse crate::common::{Flavour, Pol};\nuse crate::l1::block_on;\nuse cachelito_async_macros::cache_async;\nuse cachelito_macros::cache;\n\n")
    f.write("\n".join(code))
    f.write("\n\npub static ATTRS: &[AttrFn] = &[\n" + "\n".join(entries) + "\n];\n")
print("attr functions:", len(entries))
